#!/venv/bin/python
"""Mutation sweep: a quantitative sensitivity measurement of the checks.

For every mutation site in the anchored source files (AST-level: comparison flips, arithmetic swaps, boolean flips,
numeric constants, dropped copy()/deepcopy() calls, deleted statements) a scratch copy of the pyPRISM package is mutated
(outside /repo and /verif), the repository's own 59 tests are run on it, and for mutants that still pass them ("compile
and pass the existing tests") the quick tier of the checks mapped to that file is run against the scratch copy
(VERIF_REPO).  Output: tools/../mutation/RESULTS.jsonl (one line per mutant) and a summary.  Survivors of both the tests
and the checks are listed for manual triage (equivalent mutant / outside every property / blind spot).

usage: tools/mutate.py [--files core/PRISM.py,...] [--jobs 8] [--max N] [--seed S] [--only-tests] [--resume]
"""
import argparse
import ast
import concurrent.futures as cf
import copy
import hashlib
import json
import os
import random
import shutil
import subprocess
import sys
import time

HERE = os.path.dirname(os.path.dirname(os.path.abspath(__file__)))
PY = '/venv/bin/python'
REPO = '/repo'
SCRATCH = '/tmp/mut'

FILE_PROPS = {
    'core/PRISM.py': ['C01', 'C03', 'C06', 'C16', 'C12'],
    'core/Domain.py': ['C07', 'C06', 'C16'],
    'core/MatrixArray.py': ['C13', 'C07'],
    'core/IdentityMatrixArray.py': ['C13'],
    'core/PairTable.py': ['C14', 'C16'],
    'core/ValueTable.py': ['C14', 'C15'],
    'core/Table.py': ['C14'],
    'core/Density.py': ['C15', 'C16'],
    'core/Diameter.py': ['C15', 'C16'],
    'core/System.py': ['C16'],
    'core/Space.py': ['C13'],
    'calculate/pair_correlation.py': ['C06', 'C03'],
    'calculate/structure_factor.py': ['C06'],
    'calculate/pmf.py': ['C06'],
    'calculate/second_virial.py': ['C06'],
    'calculate/chi.py': ['C06'],
    'calculate/spinodal_condition.py': ['C06'],
    'calculate/solvation_potential.py': ['C06'],
    'closure/PercusYevick.py': ['C01', 'C03'],
    'closure/HyperNettedChain.py': ['C01', 'C03'],
    'closure/MeanSphericalApproximation.py': ['C01', 'C03'],
    'closure/MartynovSarkisov.py': ['C01', 'C03'],
    'omega/FromFile.py': ['C12'],
    'omega/FromArray.py': ['C12'],
    'potential/HardSphere.py': ['C01', 'C03'],
    'potential/LennardJones.py': ['C01'],
    'potential/WeeksChandlerAndersen.py': ['C01'],
    'potential/HardCoreLennardJones.py': ['C01', 'C03'],
    'potential/Exponential.py': ['C01', 'C03'],
}

CMP = {ast.Gt: ast.GtE, ast.GtE: ast.Gt, ast.Lt: ast.LtE, ast.LtE: ast.Lt, ast.Eq: ast.NotEq, ast.NotEq: ast.Eq,
       ast.Is: ast.IsNot, ast.IsNot: ast.Is}
BIN = {ast.Add: ast.Sub, ast.Sub: ast.Add, ast.Mult: ast.Div, ast.Div: ast.Mult}


def is_docstring(node, parent):
    return isinstance(node, ast.Expr) and isinstance(getattr(node, 'value', None), ast.Constant) and isinstance(node.value.value, str)


class Collector(ast.NodeVisitor):
    """enumerate mutation sites as (kind, path-of-child-indices)"""

    def __init__(self):
        self.sites = []

    def generic_visit(self, node, path=()):
        for field, value in ast.iter_fields(node):
            if isinstance(value, list):
                for i, item in enumerate(value):
                    if isinstance(item, ast.AST):
                        self.visit_node(item, path + ((field, i),), node)
            elif isinstance(value, ast.AST):
                self.visit_node(value, path + ((field, None),), node)

    def visit_node(self, node, path, parent):
        if isinstance(node, ast.Compare) and len(node.ops) == 1 and type(node.ops[0]) in CMP:
            self.sites.append(('cmp', path))
        if isinstance(node, ast.BinOp) and type(node.op) in BIN:
            self.sites.append(('bin', path))
        if isinstance(node, ast.AugAssign) and type(node.op) in BIN:
            self.sites.append(('aug', path))
        if isinstance(node, ast.Constant) and isinstance(node.value, bool):
            self.sites.append(('bool', path))
        elif isinstance(node, ast.Constant) and isinstance(node.value, (int, float)) and not isinstance(node.value, bool):
            self.sites.append(('num', path))
        if isinstance(node, ast.Call):
            f = node.func
            nm = f.attr if isinstance(f, ast.Attribute) else (f.id if isinstance(f, ast.Name) else None)
            if nm in ('copy', 'deepcopy', 'array') and len(node.args) >= 1:
                self.sites.append(('uncopy', path))
        if isinstance(node, (ast.Assign, ast.AugAssign, ast.Expr)) and not is_docstring(node, parent) and \
                isinstance(parent, (ast.FunctionDef, ast.For, ast.If, ast.With, ast.While, ast.Try)):
            self.sites.append(('del', path))
        if isinstance(node, ast.If):
            self.sites.append(('ifnot', path))
        self.generic_visit(node, path)


def get(node, path):
    for field, i in path:
        node = getattr(node, field)
        if i is not None:
            node = node[i]
    return node


def setn(root, path, new):
    parent = get(root, path[:-1])
    field, i = path[-1]
    if i is None:
        setattr(parent, field, new)
    else:
        getattr(parent, field)[i] = new


def apply(tree, kind, path):
    t = copy.deepcopy(tree)
    n = get(t, path)
    if kind == 'cmp':
        n.ops = [CMP[type(n.ops[0])]()]
        desc = 'cmp->%s' % type(n.ops[0]).__name__
    elif kind in ('bin', 'aug'):
        n.op = BIN[type(n.op)]()
        desc = '%s->%s' % (kind, type(n.op).__name__)
    elif kind == 'bool':
        n.value = not n.value
        desc = 'bool->%s' % n.value
    elif kind == 'num':
        old = n.value
        n.value = old + 1 if isinstance(old, int) else (old * 2.0 if old != 0 else 1.0)
        desc = 'num %r->%r' % (old, n.value)
    elif kind == 'uncopy':
        setn(t, path, n.args[0])
        desc = 'drop copy()'
    elif kind == 'del':
        setn(t, path, ast.Pass())
        desc = 'delete statement'
    elif kind == 'ifnot':
        n.test = ast.UnaryOp(op=ast.Not(), operand=n.test)
        desc = 'negate if'
    else:
        raise ValueError(kind)
    ast.fix_missing_locations(t)
    return t, desc, getattr(n, 'lineno', None)


def sh(cmd, cwd=None, env=None, timeout=1800):
    try:
        p = subprocess.run(cmd, cwd=cwd, env=env, capture_output=True, text=True, timeout=timeout)
        return p.returncode, p.stdout + p.stderr
    except subprocess.TimeoutExpired:
        return 124, 'timeout'


def work(job):
    """one mutant: tests, then checks"""
    mid, rel, kind, path, only_tests, slot, check_workers = job
    wdir = os.path.join(SCRATCH, 'w%d' % slot)
    pkg = os.path.join(wdir, 'pyPRISM')
    if not os.path.isdir(pkg):
        os.makedirs(wdir, exist_ok=True)
        shutil.copytree(os.path.join(REPO, 'pyPRISM'), pkg, ignore=shutil.ignore_patterns('__pycache__', '*.pyc', '*.so', 'build'))
    src_path = os.path.join(REPO, 'pyPRISM', rel)
    dst_path = os.path.join(pkg, rel)
    src = open(src_path).read()
    tree = ast.parse(src)
    out = {'id': mid, 'file': rel, 'kind': kind}
    try:
        t, desc, line = apply(tree, kind, path)
        new = ast.unparse(t)
        if new == ast.unparse(tree):
            out['status'] = 'noop'
            return out
    except Exception as e:
        out['status'] = 'gen-error: %r' % (e,)
        return out
    out['desc'] = desc
    out['line'] = line
    try:
        with open(dst_path, 'w') as f:
            f.write(new)
        env = dict(os.environ, PYTHONDONTWRITEBYTECODE='1', PYTHONWARNINGS='ignore', OMP_NUM_THREADS='1', OPENBLAS_NUM_THREADS='1')
        rc, o = sh([PY, '-m', 'pytest', '-q', '-x', '-p', 'no:cacheprovider', '--timeout=300', '--continue-on-collection-errors', 'pyPRISM'],
                   cwd=wdir, env=env, timeout=900)
        tail = [l for l in o.strip().splitlines() if ' passed' in l or ' failed' in l or 'error' in l.lower()][-1:] or [o[-120:]]
        passed = rc == 0 and ' 59 passed' in (' ' + tail[0])
        out['tests'] = tail[0].strip()[:100]
        if not passed:
            out['status'] = 'killed-by-tests'
            return out
        if only_tests:
            out['status'] = 'survived-tests'
            return out
        out['checks'] = {}
        caught = False
        for p in FILE_PROPS.get(rel, []):
            e2 = dict(env, VERIF_REPO=wdir, VERIF_EVIDENCE_DIR=os.path.join(wdir, 'ev'), VERIF_WORKERS=str(check_workers))
            t0 = time.time()
            rc, o = sh([os.path.join(HERE, 'check'), p, '--tier', 'quick'], cwd=HERE, env=e2, timeout=1500)
            lines = [l for l in o.splitlines() if l.startswith('violation class=') or l.startswith('HARNESS')]
            out['checks'][p] = {'rc': rc, 's': round(time.time() - t0, 1), 'line': (lines[0][:160] if lines else '')}
            if rc == 1:
                caught = True
                break
        out['status'] = 'caught' if caught else 'SURVIVED'
        return out
    finally:
        with open(dst_path, 'w') as f:
            f.write(src)
        shutil.rmtree(os.path.join(wdir, 'ev'), ignore_errors=True)


def main():
    ap = argparse.ArgumentParser()
    ap.add_argument('--files', default=None)
    ap.add_argument('--jobs', type=int, default=4)
    ap.add_argument('--check-workers', type=int, default=4)
    ap.add_argument('--max', type=int, default=None, help='sample at most N mutants per file')
    ap.add_argument('--seed', type=int, default=1)
    ap.add_argument('--only-tests', action='store_true')
    ap.add_argument('--resume', action='store_true')
    a = ap.parse_args()
    files = a.files.split(',') if a.files else sorted(FILE_PROPS)
    outdir = os.path.join(HERE, 'mutation')
    os.makedirs(outdir, exist_ok=True)
    resp = os.path.join(outdir, 'RESULTS.jsonl')
    done = set()
    if a.resume and os.path.exists(resp):
        for l in open(resp):
            try:
                done.add(json.loads(l)['id'])
            except Exception:
                pass
    rng = random.Random(a.seed)
    jobs = []
    for rel in files:
        src = open(os.path.join(REPO, 'pyPRISM', rel)).read()
        tree = ast.parse(src)
        c = Collector()
        c.generic_visit(tree)
        sites = c.sites
        if a.max and len(sites) > a.max:
            sites = rng.sample(sites, a.max)
        for kind, path in sites:
            mid = '%s:%s:%s' % (rel, kind, hashlib.sha1(repr(path).encode()).hexdigest()[:8])
            if mid in done:
                continue
            jobs.append([mid, rel, kind, path, a.only_tests, None, a.check_workers])
    print('%d mutants to run (%d files), %d jobs in parallel' % (len(jobs), len(files), a.jobs))
    sys.stdout.flush()
    # one scratch slot per parallel job; slots are handed out by a simple pool of ids
    import multiprocessing
    mgr = multiprocessing.Manager()
    slots = mgr.Queue()
    for i in range(a.jobs):
        slots.put(i)
    counts = {}
    with cf.ThreadPoolExecutor(max_workers=a.jobs) as ex, open(resp, 'a') as fout:
        def run(job):
            slot = slots.get()
            try:
                job[5] = slot
                return work(tuple(job))
            finally:
                slots.put(slot)
        for r in ex.map(run, jobs):
            counts[r['status'].split(':')[0]] = counts.get(r['status'].split(':')[0], 0) + 1
            fout.write(json.dumps(r) + '\n')
            fout.flush()
            if r['status'] in ('SURVIVED',):
                print('SURVIVED %s line %s %s' % (r['id'], r.get('line'), r.get('desc')))
                sys.stdout.flush()
    print('summary', counts)
    shutil.rmtree(SCRATCH, ignore_errors=True)
    return 0


if __name__ == '__main__':
    sys.exit(main())
