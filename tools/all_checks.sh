#!/bin/sh
# Run the given tier of every claimed check in /verif against /repo (the real thing: evidence/<id>.json is rewritten).
# usage: tools/all_checks.sh quick|thorough
cd "$(dirname "$0")/.." || exit 2
TIER="${1:-quick}"
BAD=0
for p in C01 C03 C06 C07 C12 C13 C14 C15 C16; do
  out=$(./check "$p" --tier "$TIER" 2>&1); rc=$?
  echo "$p rc=$rc $(echo "$out" | grep '^runs=' | cut -c1-200)"
  echo "$out" | grep '^KNOWN-FINDING\|^VIOLATION\|^HARNESS\|^coverage_gaps' | cut -c1-300
  [ $rc -ne 0 ] && BAD=$((BAD+1))
done
echo "ALL-DONE bad=$BAD"
