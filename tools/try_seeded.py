#!/venv/bin/python
"""Evaluate one seeded breaking change (a directory with patch.diff, demo.py, meta.json):

  1. scratch worktree of /repo HEAD outside /repo and /verif, patch applied there
  2. the repository's own test-suite must still pass with the change (59 tests)
  3. demo.py must exit 0 on the unchanged tree and non-zero on the changed tree
  4. the checks named on the command line (default: the property in meta.json) are run against the
     changed tree (VERIF_REPO) at the given tier; exit 1 + VIOLATION line = caught
  5. worktree removed

usage: tools/try_seeded.py <dir> [--props C06,C16] [--tier quick] [--keep] [--skip-tests]
Prints a JSON summary; never touches /repo's working tree.
"""
import argparse
import json
import os
import shutil
import subprocess
import sys
import time

HERE = os.path.dirname(os.path.dirname(os.path.abspath(__file__)))
PY = '/venv/bin/python'


def sh(cmd, cwd=None, env=None, timeout=1800):
    t0 = time.time()
    p = subprocess.run(cmd, cwd=cwd, env=env, capture_output=True, text=True, timeout=timeout)
    return p.returncode, p.stdout + p.stderr, time.time() - t0


def main():
    ap = argparse.ArgumentParser()
    ap.add_argument('dir')
    ap.add_argument('--props', default=None)
    ap.add_argument('--tier', default='quick')
    ap.add_argument('--keep', action='store_true')
    ap.add_argument('--skip-tests', action='store_true')
    a = ap.parse_args()
    d = os.path.abspath(a.dir)
    meta = json.load(open(os.path.join(d, 'meta.json')))
    name = os.path.basename(d.rstrip('/'))
    wt = '/tmp/wt_seed_%s_%d' % (name, os.getpid())
    out = {'name': name, 'property': meta.get('property'), 'tier': a.tier}
    rc, o, _ = sh(['git', '-C', '/repo', 'worktree', 'add', '-q', '--detach', wt, 'HEAD'])
    if rc:
        print(json.dumps({'error': 'worktree: ' + o}))
        return 2
    try:
        rc, o, _ = sh(['git', 'apply', os.path.join(d, 'patch.diff')], cwd=wt)
        if rc:
            rc, o, _ = sh(['git', 'apply', '--3way', os.path.join(d, 'patch.diff')], cwd=wt)
        out['applies'] = rc == 0
        if rc:
            out['apply_error'] = o[-400:]
            print(json.dumps(out, indent=1))
            return 2
        if not a.skip_tests:
            rc, o, dt = sh([PY, '-m', 'pytest', '-q', '-p', 'no:cacheprovider', '--timeout=900', '--continue-on-collection-errors'], cwd=wt)
            tail = [l for l in o.strip().splitlines() if 'passed' in l or 'failed' in l][-1:] or [o[-200:]]
            out['tests'] = tail[0].strip()
            out['tests_pass'] = ' 59 passed' in (' ' + tail[0]) and 'failed' not in tail[0]
        demo = os.path.join(d, 'demo.py')
        if os.path.exists(demo):
            rc0, o0, _ = sh([PY, demo, '/repo'], cwd='/tmp', timeout=300)
            rc1, o1, _ = sh([PY, demo, wt], cwd='/tmp', timeout=300)
            out['demo_unchanged_rc'] = rc0
            out['demo_changed_rc'] = rc1
            out['demo_ok'] = rc0 == 0 and rc1 != 0
        props = (a.props or meta.get('property') or '').split(',')
        out['checks'] = {}
        for p in [x for x in props if x]:
            env = dict(os.environ)
            env['VERIF_REPO'] = wt
            env['VERIF_EVIDENCE_DIR'] = '/tmp/seed_evidence_%d' % os.getpid()
            rc, o, dt = sh([os.path.join(HERE, 'check'), p, '--tier', a.tier], cwd=HERE, env=env, timeout=3600)
            vio = [l for l in o.splitlines() if l.startswith('violation class=') or l.startswith('VIOLATION') or l.startswith('HARNESS')]
            out['checks'][p] = {'rc': rc, 'caught': rc == 1, 'seconds': round(dt, 1), 'lines': vio[:6]}
            shutil.rmtree(env['VERIF_EVIDENCE_DIR'], ignore_errors=True)
    finally:
        if not a.keep:
            sh(['git', '-C', '/repo', 'worktree', 'remove', '--force', wt])
            shutil.rmtree(wt, ignore_errors=True)
    print(json.dumps(out, indent=1))
    return 0


if __name__ == '__main__':
    sys.exit(main())
