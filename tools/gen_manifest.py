#!/venv/bin/python
"""Regenerate /verif/MANIFEST.json from the table below (kept valid at all times)."""
import json, os, sys
HERE = os.path.dirname(os.path.dirname(os.path.abspath(__file__)))
sys.path.insert(0, HERE)

SIM = 'deterministic simulation: seeded search over user-op histories x solver-callback schedules x injected solver/file faults, op-by-op refinement against a reference model, ddmin minimisation, fresh-interpreter replay'
SIMH = 'deterministic simulation, degenerate single-client form (no fault source exists in the anchored code): seeded history search + op-by-op refinement against a reference model + ddmin + replay'

CLAIMED = {
 'C01': dict(tech=SIM, ref='3 C01', text='Seeded exploration: random 1-3 component systems solved through the public API under a simulator-owned root-finder seam (real scipy methods, buggified schedules modelled on measured scipy behaviour, and a scripted solver); PRISM equation and per-pair closure checked with an oracle independent of cost(), bounded by the solver-reported residual. Sampling, not proof.', note='trusts numpy/scipy linear algebra, the harness sine-matrix transforms and closed-form closure slopes (cross-checked against the repository closures each batch); NFJC/DiscreteKoyama omitted (cannot run on pinned deps)'),
 'C03': dict(tech=SIM, ref='3 C03', text='Seeded exploration with an invariant monitored at every solver callback (c+gamma=-1 inside every hard core for each trial gamma the solver or the adversarial scripted solver hands over) and a post-solve bound |g|<=|F|/r. Sampling, not proof.', note='core classification uses the grid floats of the Domain under test; gamma with |gamma|>1e6 counted, not judged (inf-inf)'),
 'C06': dict(tech=SIM, ref='3 C06', text='Seeded history search over calculate.* calls x flags x user transforms x re-solves on one solved object, compared op by op with a shadow object that went through the same solve chain only; solver schedule owned by the simulator so that "stored arrays = arrays at the returned root" is decided for schedules real scipy does produce. Sampling.', note='norm-wise equality tol 1e-8; pmf compared where g>1e-6; shadow = same deterministic solve chain'),
 'C07': dict(tech=SIMH, ref='3 C07', text='Seeded history search over Domain constructor/setter sequences with round-trip, linearity, fresh-Domain equivalence and explicit sine-matrix oracles after every op. Sampling.', note='rounding tolerance 1e-10 relative; lengths <= 4096'),
 'C12': dict(tech=SIM, ref='3 C12', text='Seeded exploration of file layouts x k-grid perturbations x simulated-disk faults (torn/short/lost/replaced/missing/EIO mid-read) x Domain configurations, and FromArray aliasing histories; oracle = independent tokenizer of the bytes actually on disk -> verbatim or must-raise. Sampling.', note='read faults injected at numpy.lib._datasource.open (feature-detected); perturbations within +-10% of the allclose threshold are not generated'),
 'C13': dict(tech=SIMH, ref='3 C13', text='Seeded history search over operator x operand-kind x space-flag x in-place sequences on a pool of MatrixArrays with a per-matrix numpy model, byte snapshots of every pool member and shares_memory checks. Sampling.', note='well-conditioned data by construction; CPython without -O (refusals are asserts)'),
 'C14': dict(tech=SIMH, ref='3 C14', text='Seeded history search over PairTable/ValueTable operations with a dict model compared after every op, including in-place mutation of stored values and caller objects to expose shared references. Sampling.', note='symmetric tables; str/int type names; ValueTable copy isolation not demanded (statement attributes it to PairTable)'),
 'C15': dict(tech=SIMH, ref='3 C15', text='Seeded history search over Density/Diameter assignment and re-assignment orders with a dict-of-floats model and closed formulas checked for every assigned pair after every op. Sampling.', note='relative tolerance 1e-12; positive values'),
 'C16': dict(tech=SIM, ref='3 C16', text='Seeded history search over edit/create/solve sweeps starting from an empty System (partial specifications arise naturally), with FromFile omega rewritten/torn between creates; parameter-record model -> freshly built System as oracle, structural digests for isolation, solver-seam call counts for "never starts a calculation on a partial system". Sampling.', note='edits through public attributes/tables and Domain setters only; tol 1e-8 between swept and fresh solves (same deterministic computation)'),
}

NA = {
 'C02': 'pure function of (eta, kT, potential, grid) compared with closed formulas; no schedule, fault or history to simulate',
 'C04': 'metamorphic relation between two independent pure computations; an input permutation is not an interleaving',
 'C05': 'each calculate.* is a pure map from stored arrays to a value; formula checking, not simulation (the history aspect is C06, which is claimed)',
 'C08': 'discretisation-error statement about a pure linear map; nothing to schedule or fault',
 'C09': 'closures are elementwise pure functions of (gamma, u, sigma, flag)',
 'C10': 'potentials are pure functions of (r, parameters); contact handling is deterministic float arithmetic',
 'C11': 'omega(k) models are pure functions of (k, chain parameters)',
 'C17': 'unit conversions are pure functions; each converter owns its registry, no shared state',
 'C18': 'the Debyer extension cannot be compiled against the pinned numpy (np.int/np.int_t removed) and OpenMP scheduling is behind no seam a Python simulator can own',
}

def main():
    from simkit import runner
    built = [p for p in sorted(CLAIMED) if os.path.exists(os.path.join(HERE, 'simkit', 'worlds', p.lower() + '.py'))]
    checks = []
    for p in built:
        c = CLAIMED[p]
        checks.append({
            'property_id': p,
            'quick_cmd': './check %s --tier quick' % p,
            'thorough_cmd': './check %s --tier thorough' % p,
            'evidence_file': 'evidence/%s.json' % p,
            'replay_cmd_template': './check %s --replay {path}' % p,
            'engine': 'simkit',
            'level_claimed': {'category': 'exploration', 'text': c['text'], 'design_ref': 'DESIGN.md section ' + c['ref']},
            'level_note': c['note'],
            'technique': c['tech'],
        })
    na = [{'property_id': p, 'reason': r} for p, r in sorted(NA.items())]
    for p in sorted(CLAIMED):
        if p not in built:
            na.append({'property_id': p, 'reason': 'designed (DESIGN.md section %s) but its check is not built yet; not claimed until it is' % CLAIMED[p]['ref']})
    na.sort(key=lambda e: e['property_id'])
    hooks_commits = []
    hp = os.path.join(HERE, 'hooks_commits.txt')
    if os.path.exists(hp):
        hooks_commits = [l.strip() for l in open(hp) if l.strip()]
    m = {
        'version': 1,
        'setup_cmd': '/venv/bin/python -m simkit.selfcheck',
        'hooks': {
            'guard': 'PYPRISM_VERIF',
            'enable': 'no hook exists in /repo: every seam is owned from outside (module attribute pyPRISM.core.PRISM.root, numpy.lib._datasource.open, per-instance closure wrappers); checks import pyPRISM from /repo\'s working tree via sys.path',
            'baseline_off_cmd': 'cd /repo && /venv/bin/python -m pytest -ra -q -p no:cacheprovider --timeout=900 --continue-on-collection-errors',
            'source_commits': hooks_commits,
            'add_only': True,
        },
        'engines': [{'name': 'simkit', 'path': 'simkit/', 'serves_properties': built,
                     'kind_free_text': 'own deterministic simulator: sha256-derived seed streams, simulated user script / root finder / disk, reference models, ddmin, JSON op-list replay (single-run and multi-run), chunk-level process isolation'}],
        'checks': checks,
        'not_applicable': na,
        'notes': 'Exit codes: 0 held (possibly with KNOWN-FINDING lines), 1 VIOLATION, 2 HARNESS-ERROR, 3 wall-clock kill. VERIF_SEED, VERIF_TIER, VERIF_RUNS, VERIF_WALL, VERIF_WORKERS, VERIF_REPO (scratch tree for seeded changes), VERIF_EVIDENCE_DIR (scratch evidence) honoured. KNOWN-FINDING lines: known_findings.json status=open (currently K1, C03). ./check selftest determinism|sensitivity; tools/run_seeded.sh; tools/soak.sh; tools/mutate.py. See DESIGN.md.',
    }
    with open(os.path.join(HERE, 'MANIFEST.json'), 'w') as f:
        json.dump(m, f, indent=1)
    try:
        import jsonschema
        jsonschema.validate(m, json.load(open('/root/.vp/MANIFEST.schema.json')))
        print('MANIFEST valid; claimed:', built)
    except ImportError:
        print('written (jsonschema missing)')

if __name__ == '__main__':
    main()
