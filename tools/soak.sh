#!/bin/sh
# Soak: run the given tier of every claimed check under many master seeds; print one line per (property, seed);
# any exit != 0 is listed at the end.  Evidence goes to a scratch dir (never the committed evidence).
# usage: tools/soak.sh <tier> <first_seed> <last_seed> [props...]
cd "$(dirname "$0")/.." || exit 2
TIER="$1"; A="$2"; B="$3"; shift 3
PROPS="${*:-C01 C03 C06 C07 C12 C13 C14 C15 C16}"
export VERIF_EVIDENCE_DIR="${TMPDIR:-/tmp}/soak_evidence_$$"
BAD=0
s=$A
while [ "$s" -le "$B" ]; do
  for p in $PROPS; do
    out=$(VERIF_SEED=$s ./check "$p" --tier "$TIER" 2>&1); rc=$?
    echo "seed=$s $p rc=$rc $(echo "$out" | grep '^runs=' | cut -c1-160)"
    if [ $rc -ne 0 ]; then
      BAD=$((BAD+1))
      echo "$out" | grep -i 'violation\|HARNESS' | cut -c1-400
      mkdir -p soak_failures; cp replays/$p-$s-*-min.json soak_failures/ 2>/dev/null
    fi
  done
  s=$((s+1))
done
rm -rf "$VERIF_EVIDENCE_DIR"
echo "SOAK-DONE bad=$BAD"
