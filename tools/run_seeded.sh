#!/bin/sh
# Re-evaluate every kept seeded change against the current checks; writes seeded/RESULTS.json
# usage: tools/run_seeded.sh [tier]
cd "$(dirname "$0")/.." || exit 2
TIER="${1:-quick}"
OUT=seeded/RESULTS.json
echo "[" > $OUT.tmp
first=1
for d in seeded/C*; do
  [ -d "$d" ] || continue
  [ $first = 1 ] || echo "," >> $OUT.tmp
  first=0
  timeout 3600 tools/try_seeded.py "$d" --tier "$TIER" $SEEDED_ARGS >> $OUT.tmp 2>/dev/null
done
echo "]" >> $OUT.tmp
mv $OUT.tmp $OUT
/venv/bin/python - <<'PY'
import json
r=json.load(open('seeded/RESULTS.json'))
for o in r:
    c=o.get('checks',{})
    print(o['name'], 'tests_pass=%s demo_ok=%s' % (o.get('tests_pass'), o.get('demo_ok')), {p:('CAUGHT' if v['caught'] else 'missed rc=%s'%v['rc'], v['seconds']) for p,v in c.items()})
PY
