"""simkit.oracles -- oracles for solved PRISM objects, independent of PRISM.cost.

Everything is computed from (a) the arrays the object holds, interpreted through their space
flags, (b) the generator's own parameter record, (c) the harness' own sine-matrix transforms.
"""
import numpy as np

from .core import Violation
from . import sysgen, physics

TOL = 1e-8
EPS = np.finfo(float).eps


def tr(M, arr):
    """apply an (N,N) transform matrix along axis 0 of an (N,n,n) array"""
    return np.tensordot(M, arr, axes=(1, 0))


def space_name(pp, ma):
    s = ma.space
    for n in ('Real', 'Fourier', 'NonSpatial'):
        if s == getattr(pp.Space, n):
            return n
    return repr(s)


def as_real(pp, ma, grid, site):
    d = np.asarray(ma.data, dtype=float)
    s = space_name(pp, ma)
    if s == 'Real':
        return d
    if s == 'Fourier':
        return tr(grid.R, d)
    raise Violation('space_flag_invalid', site, {'flag': s})


def as_fourier(pp, ma, grid, site):
    d = np.asarray(ma.data, dtype=float)
    s = space_name(pp, ma)
    if s == 'Fourier':
        return d
    if s == 'Real':
        return tr(grid.F, d)
    raise Violation('space_flag_invalid', site, {'flag': s})


def as_real_with_bound(pp, ma, grid, site):
    """(data in real space, elementwise magnitude bound of what was summed to obtain it).  A Fourier-stored
    array is brought to real space with the harness' matrix; the rounding error of that sum at point i is
    eps*N*(|R| |data|)_i -- norm-wise, not relative to the (possibly tiny) result at that point."""
    d = np.asarray(ma.data, dtype=float)
    s = space_name(pp, ma)
    if s == 'Real':
        return d, np.abs(d)
    if s == 'Fourier':
        return tr(grid.R, d), tr(np.abs(grid.R), np.abs(d))
    raise Violation('space_flag_invalid', site, {'flag': s})


def stored(pp, P, grid, site='solve'):
    n = len(P.sys.types) if hasattr(P, 'sys') else None
    out = {}
    for nm in ('totalCorr', 'directCorr', 'omega'):
        ma = getattr(P, nm)
        d = np.asarray(ma.data)
        if d.ndim != 3 or d.shape[0] != grid.N or d.shape[1] != d.shape[2]:
            raise Violation('stored_array_shape', site, {'array': nm, 'shape': list(d.shape), 'N': grid.N})
        out[nm] = ma
    return out


def check_omega(pp, spec, P, grid, site, ctx=None):
    want = sysgen.ref_omega(pp, spec, grid.k)
    got = as_fourier(pp, P.omega, grid, site)
    if got.shape != want.shape:
        raise Violation('omega_shape', site, {'got': list(got.shape), 'want': list(want.shape)})
    sc = max(1.0, float(np.max(np.abs(want))))
    err = float(np.max(np.abs(got - want)))
    if not err <= TOL * sc:
        raise Violation('omega_not_site_density_scaled_spec', site, {'err': err, 'scale': sc})


def check_prism_equation(pp, spec, P, grid, site, ctx=None):
    _, pair = sysgen.ref_density_matrices(spec)
    h = as_real(pp, P.totalCorr, grid, site)
    H = tr(grid.F, h) * pair.reshape(1, *pair.shape)
    C = as_fourier(pp, P.directCorr, grid, site)
    Om = sysgen.ref_omega(pp, spec, grid.k)          # from the record, not from the object
    if not (np.all(np.isfinite(H)) and np.all(np.isfinite(C))):
        raise Violation('stored_arrays_not_finite', site, None)
    rhs = np.einsum('kij,kjl,klm->kim', Om, C, Om + H)
    disc = np.max(np.abs(H - rhs), axis=(1, 2))
    fm = np.max(np.einsum('kij,kjl,klm->kim', np.abs(Om), np.abs(C), np.abs(Om) + np.abs(H)), axis=(1, 2))
    n = Om.shape[1]
    IOC = np.eye(n).reshape(1, n, n) - np.einsum('kij,kjl->kil', Om, C)
    with np.errstate(all='ignore'):
        cond = np.linalg.cond(IOC)
    cond = np.where(np.isfinite(cond), cond, np.inf)
    judged = cond <= 1e8
    if ctx is not None and not np.all(judged):
        ctx.probe('ill_conditioned_k', int(np.sum(~judged)))
    bound = (TOL + 1e3 * EPS * np.where(judged, cond, 0.0)) * np.maximum(1.0, fm)
    bad = judged & ~(disc <= bound)
    if np.any(bad):
        i = int(np.argmax(np.where(bad, disc / np.maximum(bound, 1e-300), 0)))
        raise Violation('prism_equation_violated', site, {'k_index': i, 'discrepancy': float(disc[i]), 'bound': float(bound[i]),
                                                         'cond': float(cond[i]), 'factor_magnitude': float(fm[i])})
    return float(np.max(np.where(judged, disc, 0.0)))


def check_closures(pp, spec, P, res, grid, r_user, site, ctx=None):
    """|c - closure(h - c)| <= S |F|/r + tol*scale for every pair and grid point; F = reported residual."""
    types = spec['types']
    n = len(types)
    N = grid.N
    h, hb = as_real_with_bound(pp, P.totalCorr, grid, site)
    c, cb = as_real_with_bound(pp, P.directCorr, grid, site)
    F = np.asarray(res.fun, dtype=float)
    if F.size != N * n * n:
        raise Violation('residual_shape', site, {'size': int(F.size), 'want': N * n * n})
    F = F.reshape(N, n, n)
    worst = 0.0
    for i, a in enumerate(types):
        for j, b in enumerate(types):
            if i > j:
                continue
            p = spec['pairs'][sysgen.pkey(a, b)]
            # closure and potential from their definitions (simkit.physics), not from the classes under test
            u = physics.potential(p['potential']['cls'], p['potential']['kw'], sysgen.potential_sigma(spec, a, b), r_user) / spec['kT']
            g_out = h[:, i, j] - c[:, i, j]
            Fr = np.abs(F[:, i, j]) / r_user
            Fr = np.maximum(Fr, np.abs(F[:, j, i]) / r_user)
            cstar = physics.closure(p['closure']['cls'], p['closure']['hc'], sysgen.sigma_ab(spec, a, b), r_user, g_out, u)
            core = r_user <= sysgen.sigma_ab(spec, a, b)
            S = sysgen.closure_slope_sup(p['closure'], g_out - Fr, g_out + Fr, u, core)
            scale = np.maximum(1.0, np.maximum(np.maximum(cb[:, i, j], hb[:, i, j]), np.maximum(np.abs(g_out), np.abs(cstar))))
            bound = S * Fr * (1 + 1e-6) + TOL * scale
            diff = np.abs(c[:, i, j] - cstar)
            judge = np.isfinite(bound) & np.isfinite(cstar)
            if ctx is not None and not np.all(judge):
                ctx.probe('closure_points_unjudged', int(np.sum(~judge)))
            bad = judge & ~(diff <= bound)
            if np.any(bad):
                m = int(np.argmax(np.where(bad, diff - bound, -np.inf)))
                raise Violation('closure_relation_violated', site, {
                    'pair': [a, b], 'closure': p['closure']['cls'], 'hc': p['closure']['hc'], 'potential': p['potential']['cls'],
                    'r_index': m, 'r': float(r_user[m]), 'diff': float(diff[m]), 'bound': float(bound[m]),
                    'residual_over_r': float(Fr[m]), 'slope': float(S[m])})
            with np.errstate(all='ignore'):
                worst = max(worst, float(np.max(np.where(judge, diff - bound, -np.inf))))
            # symmetry of the stored pair functions
            if not np.array_equal(h[:, i, j], h[:, j, i]) and float(np.max(np.abs(h[:, i, j] - h[:, j, i]))) > TOL * max(1.0, float(np.max(np.abs(h[:, i, j])))):
                raise Violation('stored_totalCorr_not_symmetric', site, {'pair': [a, b]})
    return worst


def core_masks(spec, r_user):
    """{(i,j): mask} for hard-core pairs; classification by the grid's actual floats (r <= sigma)."""
    types = spec['types']
    out = {}
    for i, a in enumerate(types):
        for j, b in enumerate(types):
            if i <= j and sysgen.is_hard_core(spec, a, b):
                out[(i, j)] = r_user <= sysgen.core_radius(spec, a, b)
    return out


def check_core_solved(pp, spec, P, res, grid, r_user, site):
    """|g| <= |F|/r + tol (1+max|c|)/r inside every hard core of a solved object."""
    types = spec['types']
    n = len(types)
    N = grid.N
    h = as_real(pp, P.totalCorr, grid, site)
    c = as_real(pp, P.directCorr, grid, site)
    F = np.asarray(res.fun, dtype=float).reshape(N, n, n)
    for (i, j), mask in core_masks(spec, r_user).items():
        if not np.any(mask):
            continue
        for (p, q) in ((i, j), (j, i)):
            g = np.abs(h[:, p, q] + 1.0)
            # the solver's unknown vector need not be symmetric in the two type labels; the pair's residual is
            # whichever of its two entries is larger
            Fpq = np.maximum(np.abs(F[:, p, q]), np.abs(F[:, q, p]))
            bound = Fpq / r_user + TOL * (1.0 + float(np.max(np.abs(c[:, p, q])))) / r_user
            bad = mask & ~(g <= bound)
            if np.any(bad):
                m = int(np.argmax(np.where(bad, g - bound, -np.inf)))
                raise Violation('g_nonzero_inside_core', site, {'pair': [types[p], types[q]], 'r_index': m, 'r': float(r_user[m]),
                                                                'g': float(h[m, p, q] + 1.0), 'bound': float(bound[m])})
