"""simkit.core -- seeds, streams, event log / digest, violation type, repo import.

One integer decides everything: every choice of a run is drawn from
random.Random instances that are derived (sha256, never the salted hash()) from
the run seed and a stream name.  Logging never draws from a PRNG and never
reads a clock.
"""
import hashlib
import json
import math
import os
import random
import sys
import warnings

DEFAULT_MASTER_SEED = 20260928
VERIF_DIR = os.path.dirname(os.path.dirname(os.path.abspath(__file__)))


def repo_path():
    return os.environ.get('VERIF_REPO', '/repo')


_imported = {}


def import_pyprism():
    """Import pyPRISM from the repository's *current working tree*.

    Nothing is built: pyPRISM is pure python (the Debyer extension is not
    importable on the pinned numpy and is not used).  The path is inserted at
    the front so that no installed copy can shadow the tree under test.
    """
    if 'mod' in _imported:
        return _imported['mod']
    p = repo_path()
    if p not in sys.path:
        sys.path.insert(0, p)
    sys.dont_write_bytecode = True
    with warnings.catch_warnings():
        warnings.simplefilter('ignore')
        import pyPRISM  # noqa
    got = os.path.realpath(os.path.dirname(os.path.dirname(pyPRISM.__file__)))
    want = os.path.realpath(p)
    if got != want:
        raise RuntimeError('pyPRISM imported from %s, expected %s' % (got, want))
    _imported['mod'] = pyPRISM
    return pyPRISM


def h64(*parts):
    s = '/'.join(str(p) for p in parts).encode()
    return int.from_bytes(hashlib.sha256(s).digest()[:8], 'big')


def run_seed(master, prop, index):
    return h64(master, prop, index)


class Streams(object):
    """Independent named PRNG streams derived from one run seed."""

    def __init__(self, seed):
        self.seed = seed
        self._s = {}

    def get(self, name):
        r = self._s.get(name)
        if r is None:
            r = self._s[name] = random.Random(h64(self.seed, name))
        return r

    def fresh(self, *name):
        return random.Random(h64(self.seed, *name))


def np_rng(*parts):
    import numpy as np
    return np.random.RandomState(h64(*parts) % (2 ** 32))


class Violation(Exception):
    """A property violation detected by an oracle.

    kind/site together are the *violation class* used for same-class
    minimisation and for matching known findings."""

    def __init__(self, kind, site, detail=None, step=None):
        Exception.__init__(self, '%s@%s: %s' % (kind, site, detail))
        self.kind = kind
        self.site = site
        self.detail = detail
        self.step = step

    def to_json(self):
        return {'kind': self.kind, 'site': self.site, 'detail': jsonable(self.detail), 'step': self.step}


class Skip(Exception):
    """Run ended unjudged (antecedent not met, e.g. solver did not converge)."""


def jsonable(x):
    import numpy as np
    if isinstance(x, dict):
        return {str(k): jsonable(v) for k, v in x.items()}
    if isinstance(x, (list, tuple)):
        return [jsonable(v) for v in x]
    if isinstance(x, (np.floating,)):
        x = float(x)
    if isinstance(x, (np.integer,)):
        return int(x)
    if isinstance(x, (np.bool_,)):
        return bool(x)
    if isinstance(x, float):
        if math.isnan(x):
            return 'nan'
        if math.isinf(x):
            return 'inf' if x > 0 else '-inf'
        return x
    if isinstance(x, np.ndarray):
        if x.size <= 8:
            return jsonable(x.tolist())
        return {'ndarray': list(x.shape), 'sha': hashlib.sha256(np.ascontiguousarray(x).tobytes()).hexdigest()[:12]}
    if isinstance(x, (str, int, bool)) or x is None:
        return x
    return repr(x)


def canon(obj):
    return json.dumps(jsonable(obj), sort_keys=True, separators=(',', ':'))


class Ctx(object):
    """Per-run context: event log + digest, probes, fault counters, step clock."""

    def __init__(self, seed):
        self.seed = seed
        self._h = hashlib.sha256()
        self.events = 0
        self.steps = 0          # logical clock: user ops + solver callbacks + file ops
        self.probes = {}
        self.faults = {}
        self.abstract = set()
        self.nontrivial = False
        self.keep_log = False
        self.logrecs = []
        self.info = {}

    def log(self, **rec):
        s = canon(rec)
        self._h.update(s.encode())
        self._h.update(b'\n')
        self.events += 1
        if self.keep_log:
            self.logrecs.append(s)

    def raw(self, arr):
        """Fold the raw bytes of a numerical result into the digest."""
        import numpy as np
        a = np.ascontiguousarray(arr)
        self._h.update(a.tobytes())

    def probe(self, name, n=1):
        self.probes[name] = self.probes.get(name, 0) + n

    def fault(self, name, n=1):
        self.faults[name] = self.faults.get(name, 0) + n

    def state(self, *s):
        self.abstract.add(canon(s))

    def tick(self, n=1):
        self.steps += n

    def digest(self):
        return self._h.hexdigest()
