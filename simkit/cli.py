"""Command line: see /verif/check."""
import argparse
import sys


def main(argv=None):
    argv = list(sys.argv[1:] if argv is None else argv)
    if argv and argv[0] == 'selftest':
        from . import selftest
        return selftest.main(argv[1:])
    ap = argparse.ArgumentParser()
    ap.add_argument('pid')
    ap.add_argument('--tier', default=None, choices=['quick', 'thorough'])
    ap.add_argument('--replay', default=None)
    a = ap.parse_args(argv)
    from . import runner
    if a.pid not in runner.WORLDS:
        print('HARNESS-ERROR unknown property %s (claimed: %s)' % (a.pid, sorted(runner.WORLDS)))
        return 2
    if a.replay:
        return runner.cmd_replay(a.pid, a.replay)
    import os
    tier = a.tier or os.environ.get('VERIF_TIER') or 'quick'
    return runner.run_check(a.pid, tier)


if __name__ == '__main__':
    sys.exit(main())
