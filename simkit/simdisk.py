"""simkit.simdisk -- the simulated disk behind omega.FromFile.

A file is a byte string in the simulator's model.  A *writer* produces the intended bytes; a
fault plan decides what is durable when the reader arrives (clean | prefix(b) | lost | empty |
missing | dup (written twice) | stale_tail (shorter new content over longer old content without
truncation)).  The surviving bytes are materialised as a real file in a per-run scratch directory
so that np.loadtxt runs unmodified.  Read-side faults (EIO after n characters) are injected by
replacing numpy.lib._datasource.open for read-mode opens of paths under the scratch directory
(np.savetxt goes through the same function: write-mode opens pass through untouched).

The oracle never looks at what the writer intended: parse() tokenises the bytes that are on the
simulated disk at the instant of the read, independently of numpy.
"""
import errno
import os
import re
import shutil
import tempfile

_TOKEN_OK = re.compile(r'^[0-9eE+\-.]+$|^[+-]?(nan|inf)$', re.I)


class SimDisk(object):
    def __init__(self, ctx=None):
        base = '/dev/shm' if os.path.isdir('/dev/shm') and os.access('/dev/shm', os.W_OK) else None
        self.dir = tempfile.mkdtemp(prefix='simdisk-', dir=base)
        self.ctx = ctx
        self.files = {}          # name -> bytes (durable content) ; absent = no such file
        self.eio = {}            # name -> number of characters delivered before EIO (one shot)
        self.reads = 0
        self.eio_fired = 0       # number of reads on which the armed fault actually raised
        self.swap = {}           # name -> bytes|None: content that replaces the file right after its next read-open (one shot)
        self.swaps_fired = 0
        self._old_open = None
        self.seam = None

    # ---------------------------------------------------------------- writer + crash model
    def path(self, name):
        return os.path.join(self.dir, name)

    def durable(self, name, intended, fault, cut=None):
        """what survives of a write of `intended` (bytes) under `fault`"""
        old = self.files.get(name)
        if fault == 'clean':
            return intended
        if fault == 'prefix':
            return intended[:max(0, min(len(intended), int(cut)))]
        if fault == 'lost':
            return old
        if fault == 'empty':
            return b''
        if fault == 'missing':
            return None
        if fault == 'dup':
            return intended + intended
        if fault == 'stale_tail':
            if old is not None and len(old) > len(intended):
                return intended + old[len(intended):]
            return intended
        raise ValueError(fault)

    def write(self, name, intended, fault='clean', cut=None):
        data = self.durable(name, intended, fault, cut)
        p = self.path(name)
        if data is None:
            self.files.pop(name, None)
            if os.path.exists(p):
                os.unlink(p)
        else:
            self.files[name] = data
            with open(p, 'wb') as f:
                f.write(data)
        if self.ctx is not None:
            self.ctx.tick()
            if fault != 'clean':
                self.ctx.fault('write_' + fault)
        return data

    def replace_now(self, name, data):
        p = self.path(name)
        if data is None:
            self.files.pop(name, None)
            if os.path.exists(p):
                os.unlink(p)
            return
        tmp = p + '.new'
        with open(tmp, 'wb') as f:
            f.write(data)
        os.replace(tmp, p)
        self.files[name] = data

    def delete(self, name):
        self.files.pop(name, None)
        p = self.path(name)
        if os.path.exists(p):
            os.unlink(p)
        if self.ctx is not None:
            self.ctx.tick()

    def arm_eio(self, name, after_chars):
        self.eio[name] = int(after_chars)

    def close(self):
        shutil.rmtree(self.dir, ignore_errors=True)

    # ---------------------------------------------------------------- read seam
    def install(self):
        try:
            import numpy.lib._datasource as ds
        except Exception:
            self.seam = None
            return False
        if not hasattr(ds, 'open'):
            self.seam = None
            return False
        self.seam = ds
        self._old_open = ds.open
        disk = self

        def sim_open(path, mode='r', destpath=os.curdir, encoding=None, newline=None):
            f = disk._old_open(path, mode, destpath=destpath, encoding=encoding, newline=newline)
            try:
                sp = os.fspath(path)
            except TypeError:
                return f
            if 'w' in mode or 'a' in mode or not isinstance(sp, str):
                return f
            ap = os.path.abspath(sp)
            if os.path.dirname(ap) != disk.dir:
                return f
            name = os.path.basename(ap)
            disk.reads += 1
            if disk.ctx is not None:
                disk.ctx.tick()
            if name in disk.swap:
                # the file is replaced (atomically, by rename) between this open and whatever the reader does next: the handle
                # just returned keeps delivering the old content, any later open sees the new one
                new = disk.swap.pop(name)
                disk.replace_now(name, new)
                disk.swaps_fired += 1
                if disk.ctx is not None:
                    disk.ctx.fault('replaced_between_opens')
            if name in disk.eio:
                n = disk.eio.pop(name)
                if disk.ctx is not None:
                    disk.ctx.fault('read_eio_armed_open')
                return FaultyReader(f, n, disk)
            return f
        ds.open = sim_open
        return True

    def uninstall(self):
        if self.seam is not None and self._old_open is not None:
            self.seam.open = self._old_open
        self._old_open = None

    def __enter__(self):
        self.install()
        return self

    def __exit__(self, *a):
        self.uninstall()
        self.close()
        return False


class FaultyReader(object):
    """text-mode file object that raises OSError(EIO) once n characters have been delivered"""

    def __init__(self, f, n, disk=None):
        self._disk = disk
        self._f = f
        self._left = n
        self.encoding = getattr(f, 'encoding', None)
        self.name = getattr(f, 'name', None)
        self.mode = getattr(f, 'mode', 'r')
        self.closed = False

    def read(self, size=-1):
        s = self._f.read(size)
        if len(s) > self._left:
            self._fire()
        if s == '' and self._left >= 0:
            # EOF reached before the fault position: the armed fault position was beyond the file
            return s
        self._left -= len(s)
        return s

    def _fire(self):
        self._left = 0
        if self._disk is not None:
            self._disk.eio_fired += 1
            if self._disk.ctx is not None:
                self._disk.ctx.fault('read_eio_fired')
        raise OSError(errno.EIO, 'simulated I/O error')

    def readline(self, size=-1):
        s = self._f.readline(size)
        if len(s) > self._left:
            self._fire()
        self._left -= len(s)
        return s

    def __iter__(self):
        return self

    def __next__(self):
        s = self.readline()
        if s == '':
            raise StopIteration
        return s

    def close(self):
        self.closed = True
        return self._f.close()

    def __enter__(self):
        return self

    def __exit__(self, *a):
        self.close()
        return False

    def seek(self, *a):
        return self._f.seek(*a)

    def tell(self):
        return self._f.tell()


# -------------------------------------------------------------------- independent tokenizer
def parse(data):
    """bytes on disk -> ('missing'|'unparsable'|'ragged'|'cols', ncols, rows)

    rows is a list of lists of Python floats.  '#' starts a comment, blank lines are skipped,
    columns are separated by runs of blanks/tabs -- the documented np.loadtxt defaults.
    """
    if data is None:
        return ('missing', 0, [])
    try:
        text = data.decode('ascii')
    except UnicodeDecodeError:
        return ('unparsable', 0, [])
    rows = []
    for line in text.replace('\r\n', '\n').replace('\r', '\n').split('\n'):
        line = line.split('#', 1)[0].strip()
        if not line:
            continue
        toks = line.split()
        vals = []
        for t in toks:
            if not _TOKEN_OK.match(t):
                return ('unparsable', 0, [])
            try:
                vals.append(float(t))
            except ValueError:
                return ('unparsable', 0, [])
        rows.append(vals)
    if not rows:
        return ('cols', 1, [])
    n = len(rows[0])
    for r in rows:
        if len(r) != n:
            return ('ragged', 0, [])
    return ('cols', n, rows)
