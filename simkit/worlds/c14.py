"""C14 -- PairTable / ValueTable as symmetric keyed maps with isolated values.

SIM-H: seeded history search over one PairTable and one ValueTable, op-by-op refinement
against a dict model.  No external party, hence no fault kinds.
"""
import copy

import numpy as np

from ..core import Streams, Violation, import_pyprism
from .base import BaseWorld, lib, must_raise, wrap_keys, KEY_CONTAINERS, fresh_key

NAMESETS = [['A'], ['A', 'B'], ['A', 'B', 'C'], ['A', 'B', 'C', 'D'], ['poly', 'solv'], ['AB', 'A', 'B'],
            ['x1', 'x2', 'x3', 'x4'], [1, 2, 3], ['A', 'a'], ['bead-0', 'bead-1', 'bead-2'], [1000, 1001], ['particle', 'polymer'],
            ['solvent']]


def materialise(spec):
    k = spec['k']
    v = spec['v']
    if k in ('int', 'float', 'str'):
        return v
    if k == 'list':
        return copy.deepcopy(v)
    if k == 'dict':
        return copy.deepcopy(v)
    if k == 'nd':
        return np.array(v, dtype=float)
    if k == 'tuple':
        return tuple(v)
    if k == 'tuple_mut':
        return (copy.deepcopy(v[0]), v[1])          # a tuple is only shallowly immutable: its first member is a list
    raise ValueError(k)


def same(a, b):
    if isinstance(a, np.ndarray) or isinstance(b, np.ndarray):
        return (isinstance(a, np.ndarray) and isinstance(b, np.ndarray) and a.shape == b.shape
                and a.dtype == b.dtype and a.tobytes() == b.tobytes())
    if type(a) != type(b):
        return False
    if isinstance(a, (list, tuple)):
        return len(a) == len(b) and all(same(x, y) for x, y in zip(a, b))
    if isinstance(a, dict):
        return list(a.keys()) == list(b.keys()) and all(same(a[k], b[k]) for k in a)
    return a == b


def is_mutable(v):
    return isinstance(v, (list, dict, np.ndarray)) or (isinstance(v, tuple) and len(v) > 0 and isinstance(v[0], list))


def mutate(obj, how):
    """Deterministic in-place mutation of a mutable value; returns True if applied."""
    if isinstance(obj, list):
        if how.get('nested') and obj and isinstance(obj[0], list):
            obj[0].append(how['val'])
        else:
            obj.append(how['val'])
        return True
    if isinstance(obj, dict):
        if how.get('nested') and 'n' in obj and isinstance(obj['n'], list):
            obj['n'].append(how['val'])
        else:
            obj['m%d' % (how['val'] % 3)] = how['val']
        return True
    if isinstance(obj, np.ndarray):
        if obj.size:
            obj += float(how['val']) + 0.5
        return True
    if isinstance(obj, tuple) and len(obj) > 0 and isinstance(obj[0], list):
        obj[0].append(how['val'])
        return True
    return False


APPLY = {
    'ident': lambda v: v,
    'wrap': lambda v: None if v is None else [v],
    'tag': lambda v: None if v is None else ('t', type(v).__name__),
    'pair': lambda v: None if v is None else [v, v],
    # apply() hands *every* pair's value to the function, unset pairs (None) included: this one gives them a value
    'fill': lambda v: 'filled' if v is None else v,
}


def gen_value(rng, mutable_ok=True, seq_ok=False):
    kinds = ['int', 'float', 'str']
    if seq_ok:
        # a ValueTable value may itself be a sequence (stored whole under every key; never mutated by the simulated user)
        kinds += ['list', 'tuple']
    if mutable_ok:
        kinds += ['list', 'list', 'dict', 'nd', 'nd', 'nested', 'tuple_mut']
    k = rng.choice(kinds)
    if k == 'int':
        return {'k': 'int', 'v': rng.randrange(-5, 100)}
    if k == 'float':
        return {'k': 'float', 'v': round(rng.uniform(-3, 3), 3)}
    if k == 'str':
        return {'k': 'str', 'v': rng.choice(['u', 'LJ', 'hs', ''])}
    if k == 'list':
        return {'k': 'list', 'v': [rng.randrange(10) for _ in range(rng.randrange(0, 5))]}
    if k == 'tuple':
        return {'k': 'tuple', 'v': [rng.randrange(10) for _ in range(rng.randrange(1, 5))]}
    if k == 'tuple_mut':
        return {'k': 'tuple_mut', 'v': [[rng.randrange(10), rng.randrange(10)], rng.choice(['lj', 'hs'])]}
    if k == 'nested':
        return {'k': 'list', 'v': [[rng.randrange(10)], rng.randrange(10)]}
    if k == 'dict':
        return {'k': 'dict', 'v': {'a': rng.randrange(10), 'n': [rng.randrange(10)]}}
    return {'k': 'nd', 'v': [round(rng.uniform(-2, 2), 3) for _ in range(rng.randrange(1, 5))]}


def gen_keys(rng, types):
    r = rng.random()
    if r < 0.55:
        return rng.choice(types)
    if r < 0.75:
        return list(types)
    n = rng.randrange(1, len(types) + 1)
    l = [rng.choice(types) for _ in range(n)]
    return l


class World(BaseWorld):
    pid = 'C14'

    def gen(self, seed, tier):
        st = Streams(seed)
        rc = st.get('config')
        ro = st.get('ops')
        types = list(rc.choice(NAMESETS))
        n = rc.randrange(2, 26) if tier != 'thorough' else rc.randrange(2, 60)
        # swarm: per-run op weights
        w = {'set': rc.uniform(1, 4), 'set_from_stored': rc.uniform(0, 1), 'setUnset': rc.uniform(0, 1.5),
             'apply': rc.uniform(0, 1.5), 'mutate_stored': rc.uniform(0.5, 3), 'mutate_caller': rc.uniform(0, 2),
             'check': rc.uniform(0.2, 1), 'iter': rc.uniform(0.2, 1.5), 'vset': rc.uniform(0.5, 2),
             'vsetUnset': rc.uniform(0, 1), 'vcheck': rc.uniform(0.2, 1), 'viter': rc.uniform(0.2, 1),
             'badkey': rc.uniform(0, 0.3)}
        names = sorted(w)
        ops = []
        for _ in range(n):
            k = ro.choices(names, [w[x] for x in names])[0]
            if k == 'set':
                ops.append({'op': 'set', 'k1': gen_keys(ro, types), 'k2': gen_keys(ro, types), 'val': gen_value(ro),
                            'kc1': ro.choice(KEY_CONTAINERS), 'kc2': ro.choice(KEY_CONTAINERS)})
            elif k == 'set_from_stored':
                ops.append({'op': 'set_from_stored', 'k1': gen_keys(ro, types), 'k2': gen_keys(ro, types),
                            'src': [ro.choice(types), ro.choice(types)]})
            elif k == 'setUnset':
                ops.append({'op': 'setUnset', 'val': gen_value(ro)})
            elif k == 'apply':
                ops.append({'op': 'apply', 'fn': ro.choice(sorted(APPLY)), 'inplace': ro.random() < 0.5,
                            'how': {'val': ro.randrange(100), 'nested': ro.random() < 0.5}})
            elif k == 'mutate_stored':
                ops.append({'op': 'mutate_stored', 'key': [ro.choice(types), ro.choice(types)],
                            'how': {'val': ro.randrange(100), 'nested': ro.random() < 0.5}})
            elif k == 'mutate_caller':
                ops.append({'op': 'mutate_caller', 'which': ro.randrange(8),
                            'how': {'val': ro.randrange(100), 'nested': ro.random() < 0.5}})
            elif k == 'check':
                ops.append({'op': 'check'})
            elif k == 'iter':
                ops.append({'op': 'iter', 'full': ro.random() < 0.4, 'diagonal': ro.random() < 0.6})
            elif k == 'vset':
                ops.append({'op': 'vset', 'k': gen_keys(ro, types), 'val': gen_value(ro, mutable_ok=False, seq_ok=True), 'kc': ro.choice(KEY_CONTAINERS)})
            elif k == 'vsetUnset':
                ops.append({'op': 'vsetUnset', 'val': gen_value(ro, mutable_ok=False, seq_ok=True)})
            elif k == 'vcheck':
                ops.append({'op': 'vcheck'})
            elif k == 'viter':
                ops.append({'op': 'viter'})
            elif k == 'badkey':
                ops.append({'op': 'badkey'})
        return {'config': {'types': types}, 'ops': ops}

    # ------------------------------------------------------------------ run
    def run(self, case, ctx):
        pp = import_pyprism()
        types = list(case['config']['types'])
        T = lib('PairTable()', pp.PairTable, list(types), 'tbl')
        V = lib('ValueTable()', pp.ValueTable, list(types), 'vt')
        model = {}       # frozenset -> value (model's own copy); absent == unset
        vmodel = {}
        callers = []     # (caller's object, pristine copy)
        bcast = set()    # pairs last assigned as part of a multi-pair statement
        armed = False
        ctx.probe('types%d' % len(types))

        def listify(k):
            return list(k) if isinstance(k, list) else [k]

        def verify(step, opname):
            for a in types:
                for b in types:
                    want = model.get(frozenset((a, b)))
                    got = lib('getitem', T.__getitem__, (fresh_key(a), fresh_key(b)))
                    if not same(got, want) if want is not None else got is not None:
                        raise Violation('pair_value_differs_from_model', opname,
                                        {'key': [a, b], 'got': repr(got)[:80], 'want': repr(want)[:80]}, step)
            for t in types:
                want = vmodel.get(t)
                got = lib('vgetitem', V.__getitem__, fresh_key(t))
                if not same(got, want) if want is not None else got is not None:
                    raise Violation('value_differs_from_model', opname,
                                    {'key': t, 'got': repr(got)[:80], 'want': repr(want)[:80]}, step)
            for obj, pristine in callers:
                if not same(obj, pristine):
                    raise Violation('caller_object_changed', opname, {'got': repr(obj)[:80], 'want': repr(pristine)[:80]}, step)

        def pairs_in_order(full, diagonal):
            out = []
            for i, a in enumerate(types):
                for j, b in enumerate(types):
                    if full or (i <= j if diagonal else i < j):
                        out.append(((i, j), (a, b), model.get(frozenset((a, b)))))
            return out

        for step, op in enumerate(case['ops']):
            name = op['op']
            ctx.tick()
            ctx.log(step=step, op=op)
            if name == 'set':
                obj = materialise(op['val'])
                l1, l2 = listify(op['k1']), listify(op['k2'])
                lib('setitem', T.__setitem__, (wrap_keys(fresh_key(op['k1']), op.get('kc1')), wrap_keys(fresh_key(op['k2']), op.get('kc2'))), obj)
                for kk, kc in ((op['k1'], op.get('kc1')), (op['k2'], op.get('kc2'))):
                    if isinstance(kk, list) and kc and kc != 'list':
                        ctx.probe('keys_as_' + kc)
                touched = set()
                for a in l1:
                    for b in l2:
                        model[frozenset((a, b))] = copy.deepcopy(obj)
                        touched.add(frozenset((a, b)))
                if len(touched) > 1:
                    ctx.probe('list_x_list')
                    bcast |= touched
                    armed = True
                else:
                    if touched & bcast:
                        ctx.probe('reassign_one_of_broadcast')
                if is_mutable(obj):
                    callers.append((obj, copy.deepcopy(obj)))
            elif name == 'set_from_stored':
                src = lib('getitem', T.__getitem__, tuple(fresh_key(op['src'])))
                if src is None:
                    ctx.log(skipped=True)
                else:
                    ctx.probe('set_from_stored')
                    srcm = copy.deepcopy(model[frozenset(op['src'])])
                    lib('setitem', T.__setitem__, (fresh_key(op['k1']), fresh_key(op['k2'])), src)
                    for a in listify(op['k1']):
                        for b in listify(op['k2']):
                            model[frozenset((a, b))] = copy.deepcopy(srcm)
                            bcast.add(frozenset((a, b)))
                    bcast.add(frozenset(op['src']))
                    armed = True
            elif name == 'setUnset':
                obj = materialise(op['val'])
                unset = [p for p in {frozenset((a, b)) for a in types for b in types} if p not in model]
                if model and unset:
                    ctx.probe('setUnset_after_partial')
                lib('setUnset', T.setUnset, obj)
                for p in unset:
                    model[p] = copy.deepcopy(obj)
                if len(unset) > 1:
                    bcast |= set(unset)
                    armed = True
                if is_mutable(obj):
                    callers.append((obj, copy.deepcopy(obj)))
            elif name == 'apply':
                fn = APPLY[op['fn']]
                if op['inplace']:
                    ctx.probe('apply_inplace')
                    r = lib('apply', T.apply, fn, inplace=True)
                    for i, a in enumerate(types):
                        for j, b in enumerate(types):
                            if i <= j:
                                p = frozenset((a, b))
                                nv = fn(model.get(p))
                                if nv is None:
                                    model.pop(p, None)
                                else:
                                    model[p] = copy.deepcopy(nv)
                    if r is not T:
                        raise Violation('apply_inplace_returned_other_table', 'apply', None, step)
                else:
                    ctx.probe('apply_outofplace')
                    R = lib('apply', T.apply, fn, inplace=False)
                    if R is T:
                        raise Violation('apply_outofplace_returned_self', 'apply', None, step)
                    for a in types:
                        for b in types:
                            want = fn(copy.deepcopy(model.get(frozenset((a, b)))))
                            got = lib('getitem', R.__getitem__, (fresh_key(a), fresh_key(b)))
                            if not same(got, want) if want is not None else got is not None:
                                raise Violation('apply_result_wrong', 'apply', {'key': [a, b], 'got': repr(got)[:80],
                                                                                'want': repr(want)[:80]}, step)
                    verify(step, 'apply_outofplace')      # original untouched by the call itself
                    # a later mutation of the result must not reach the original
                    for a in types:
                        for b in types:
                            got = R[a, b]
                            if isinstance(got, list) and op['fn'] in ('wrap', 'pair') and got and is_mutable(got[0]):
                                mutate(got[0], op['how'])
                            elif is_mutable(got):
                                mutate(got, op['how'])
                    try:
                        verify(step, 'apply_outofplace')
                    except Violation as v:
                        raise Violation('apply_result_aliases_original', 'apply', v.detail, step)
            elif name == 'mutate_stored':
                a, b = op['key']
                p = frozenset((a, b))
                got = lib('getitem', T.__getitem__, (fresh_key(a), fresh_key(b)))
                if got is None or not is_mutable(got):
                    ctx.log(skipped=True)
                else:
                    mutate(got, op['how'])
                    mutate(model[p], op['how'])
                    if types.index(a) > types.index(b):
                        ctx.probe('mutate_via_reversed_key')
                    if p in bcast and armed:
                        ctx.probe('mutate_one_of_broadcast')
                        ctx.nontrivial = True
            elif name == 'mutate_caller':
                if callers:
                    obj, pristine = callers[op['which'] % len(callers)]
                    # the caller changes *their* object; remember the new pristine state
                    if mutate(obj, op['how']):
                        mutate(pristine, op['how'])
                        ctx.probe('mutate_caller')
                        if armed:
                            ctx.nontrivial = True
                else:
                    ctx.log(skipped=True)
            elif name == 'check':
                complete = all(frozenset((a, b)) in model for a in types for b in types)
                if complete:
                    lib('check', T.check)
                    ctx.probe('check_complete')
                else:
                    must_raise('check', (ValueError,), T.check)
                    ctx.probe('check_incomplete')
                    if model:
                        ctx.probe('partial_then_check')
            elif name == 'iter':
                got = lib('iterpairs', lambda: list(T.iterpairs(full=op['full'], diagonal=op['diagonal'])))
                want = pairs_in_order(op['full'], op['diagonal'])
                ok = len(got) == len(want)
                if ok:
                    for g, w_ in zip(got, want):
                        try:
                            (gi, gj), (ga, gb), gv = g
                        except Exception:
                            ok = False
                            break
                        if (gi, gj) != w_[0] or (ga, gb) != w_[1] or not (same(gv, w_[2]) if w_[2] is not None else gv is None):
                            ok = False
                            break
                if not ok:
                    raise Violation('iterpairs_differs_from_model', 'iterpairs',
                                    {'full': op['full'], 'diagonal': op['diagonal'], 'got': repr(got)[:160],
                                     'want': repr(want)[:160]}, step)
                ctx.probe('iter_full' if op['full'] else ('iter_diag' if op['diagonal'] else 'iter_offdiag'))
            elif name == 'vset':
                obj = materialise(op['val'])
                lib('vsetitem', V.__setitem__, wrap_keys(fresh_key(op['k']), op.get('kc')), obj)
                for t in listify(op['k']):
                    vmodel[t] = obj
                if isinstance(op['k'], list):
                    ctx.probe('v_list_assignment')
                    if isinstance(obj, (list, tuple)) and len(obj) == len(op['k']):
                        ctx.probe('v_sequence_value_as_long_as_the_key_list')
            elif name == 'vsetUnset':
                obj = materialise(op['val'])
                if vmodel and len(vmodel) < len(types):
                    ctx.probe('v_setUnset_after_partial')
                lib('vsetUnset', V.setUnset, obj)
                for t in types:
                    if t not in vmodel:
                        vmodel[t] = obj
            elif name == 'vcheck':
                if all(t in vmodel for t in types):
                    lib('vcheck', V.check)
                else:
                    must_raise('vcheck', (ValueError,), V.check)
                    ctx.probe('v_check_incomplete')
            elif name == 'viter':
                got = lib('viter', lambda: list(V))
                want = [(i, t, vmodel.get(t)) for i, t in enumerate(types)]
                ok = len(got) == len(want) and all(
                    tuple(g[:2]) == w_[:2] and (same(g[2], w_[2]) if w_[2] is not None else g[2] is None)
                    for g, w_ in zip(got, want))
                if not ok:
                    raise Violation('valuetable_iter_differs_from_model', 'viter', {'got': repr(got)[:160], 'want': repr(want)[:160]}, step)
            elif name == 'badkey':
                # reading a key that is not a type must not silently succeed
                try:
                    T['__nope__', types[0]]
                except Exception:
                    pass
                else:
                    raise Violation('unknown_key_accepted', 'getitem', None, step)
            verify(step, name)
            mask = tuple(sorted(tuple(sorted(types.index(x) for x in p)) for p in model))
            ctx.state(len(types), hash_mask(mask), name)
        ctx.info['n_ops'] = len(case['ops'])

    def simplify(self, case):
        # fewer types
        types = case['config']['types']
        out = []
        if len(types) > 1:
            for drop in range(len(types) - 1, -1, -1):
                nt = types[:drop] + types[drop + 1:]
                d = types[drop]

                def ok(x):
                    if isinstance(x, list):
                        return d not in x
                    return x != d
                ops = [o for o in case['ops'] if all(ok(o.get(f)) for f in ('k1', 'k2', 'k')) and
                       d not in (o.get('key') or []) and d not in (o.get('src') or [])]
                c = dict(case)
                c['config'] = {'types': nt}
                c['ops'] = ops
                out.append(c)
        return out

    def expected_probes(self, tier):
        return ['list_x_list', 'setUnset_after_partial', 'mutate_via_reversed_key', 'types4', 'types1',
                'mutate_one_of_broadcast', 'mutate_caller', 'apply_inplace', 'apply_outofplace', 'partial_then_check',
                'iter_full', 'iter_diag', 'iter_offdiag', 'v_list_assignment', 'v_setUnset_after_partial',
                'set_from_stored', 'reassign_one_of_broadcast', 'v_sequence_value_as_long_as_the_key_list']

    def rule(self):
        return ('Each run = one seed -> type list (1-4 names, incl. multi-character and int names) + 2-25 ops over '
                '{set single/list x list, set from a stored value, setUnset, apply in/out of place, mutate stored value via '
                'either key order, mutate caller object, check, iterpairs(full,diagonal), ValueTable set/setUnset/check/iter}; '
                'after every op every (a,b),(b,a) read, every ValueTable read and every caller object is compared with a dict model. '
                'Non-trivial: a multi-pair assignment (list x list, setUnset over >=2 pairs or assignment from a stored value) '
                'was followed by an in-place mutation of one of those values or of the caller object, then a full read-back. '
                'Distinct: distinct run digests (sha256 over the canonical event log).')

    def abstract_measure(self):
        return '(number of types, set-pair bitmask, kind of last op)'

    def components(self):
        return {'real': ['pyPRISM.core.PairTable', 'pyPRISM.core.ValueTable', 'pyPRISM.core.Table', 'copy.deepcopy', 'numpy'],
                'stub': ['the calling script (op sequence drawn from the seed)'],
                'fault_kinds': 'none: the anchored code meets no external party; SIM-H (history search only)'}

    def assumptions(self):
        return ['symmetric PairTable (constructor default)', 'type names are str or int (tuples are ambiguous under listify)',
                'ValueTable values are immutable kinds: copy isolation is stated for PairTable only',
                'apply() functions are None-preserving so that unset pairs stay unset, except "fill", which gives unset pairs a value (apply visits every pair)',
                'CPython without -O']


def hash_mask(mask):
    return ','.join(''.join(str(i) for i in m) for m in mask)
