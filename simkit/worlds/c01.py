"""C01 -- converged solutions satisfy the PRISM equation and every pair's closure.
C03 (hard-core exclusion) shares this engine (see c03.py).

SIM: the root finder is an external party whose evaluation schedule the simulator owns
(simroot.py).  Workload: swarm-drawn systems solved through the public API; oracle independent
of cost(), bounded by the *reported* residual.
"""
import copy
import warnings

import numpy as np

from ..core import Streams, Violation, Skip, import_pyprism, np_rng
from .. import sysgen, simroot, oracles
from .base import BaseWorld, lib


class World(BaseWorld):
    pid = 'C01'
    need_hard = False
    do_c01 = True
    do_c03 = False

    # ------------------------------------------------------------------ generation
    def gen(self, seed, tier):
        st = Streams(seed)
        rc, ro = st.get('config'), st.get('ops')
        rank4 = rc.random() < 0.04
        spec = sysgen.gen_spec(rc, rank=4 if rank4 else None, need_hard=self.need_hard, small=(rank4 or rc.random() < 0.3))
        n_unknowns = spec['domain']['length'] * len(spec['types']) ** 2
        plan = simroot.gen_plan(st.get('solver'))
        ops = []
        if self.do_c03 and ro.random() < 0.6:
            for _ in range(ro.randrange(1, 4)):
                ops.append({'op': 'cost', 'kind': ro.choice(['big', 'spike', 'sign', 'small']), 'amp': ro.choice([1.0, 30.0, 1e3])})
        nsolve = ro.choice([1, 1, 1, 2])
        for s in range(nsolve):
            if s > 0:
                r_ = ro.random()
                if r_ < 0.3:
                    # the user refines / coarsens the grid and solves again in the same interpreter (same length, same diameters)
                    ops.append({'op': 'regrid', 'factor': ro.choice([0.5, 0.5, 2.0])})
                elif r_ < 0.75:
                    # a parameter sweep: edit the *same* System through its public tables and solve again
                    ops.append({'op': 'edit', 'what': ro.choice(['diameter', 'diameter', 'density', 'kT']), 't': ro.randrange(3),
                                'k': ro.choice([-1, 1, 1, 2]), 'factor': ro.choice([0.5, 0.8, 1.25])})
            ops.append({'op': 'solve', 'guess': 'prev' if s > 0 and ro.random() < 0.7 else ro.choice(['zeros', 'zeros', 'noise']),
                        'user': simroot.gen_user_solver(ro, n_unknowns), 'via': ro.choice(['prism', 'prism', 'system']),
                        # solve the PRISM object of the previous solve again (if there is one and nothing was edited since)
                        'reuse': s > 0 and ro.random() < 0.5})
            if self.do_c03 and ro.random() < 0.4:
                # the user post-processes the solved object with other calculators, then looks at g(r) inside the cores
                fns = [ro.choice(['second_virial', 'second_virial', 'structure_factor', 'pmf', 'chi', 'spinodal_condition', 'solvation_potential'])
                       for _ in range(ro.randrange(1, 4))]
                ops.append({'op': 'post', 'fns': fns})
            if self.do_c03 and ro.random() < 0.3:
                ops.append({'op': 'cost', 'kind': ro.choice(['big', 'spike', 'sign']), 'amp': ro.choice([1.0, 30.0, 1e3])})
        batch = 'fault_free' if plan['mode'] == 'real' else ('fault_injecting' if plan['mode'] == 'buggify' else 'scripted_solver')
        return {'config': {'spec': spec, 'plan': plan}, 'ops': ops, 'batch': batch}

    # ------------------------------------------------------------------ execution
    def run(self, case, ctx):
        pp = import_pyprism()
        spec = case['config']['spec']
        plan = case['config']['plan']
        seed = case['run_seed']
        types = spec['types']
        n = len(types)
        grid = sysgen.refgrid(spec)
        N = grid.N
        with warnings.catch_warnings():
            warnings.simplefilter('ignore')
            system = lib('build_system', sysgen.build_system, pp, spec)
            r_user = np.array(system.domain.r, dtype=float, copy=True)
            if r_user.shape != (N,):
                raise Skip('domain grid has %d points for length %d (C07 matter)' % (len(r_user), N))
            masks = oracles.core_masks(spec, r_user)
            mon = {'n': 0}

            def on_eval(x, y, rec):
                if self.do_c03:
                    self.monitor_eval(pp, spec, state['P'], x, grid, r_user, masks, ctx, mon)

            sr = simroot.SimRoot(plan, ctx=ctx, on_eval=on_eval if self.do_c03 else None, stream_key=seed)
            state = {'P': None, 'prev_x': None}
            ctx.probe('rank%d' % n)
            if N & (N - 1):
                ctx.probe('nonpow2_length')
            if spec['domain']['via'] == 'dk':
                ctx.probe('dk_constructed')
            if spec['domain'].get('history'):
                ctx.probe('domain_resized_in_place')
            if isinstance(spec['domain']['value'], int):
                ctx.probe('integer_grid')
            if len({(p['closure']['cls'], p['closure']['hc']) for p in spec['pairs'].values()}) > 1:
                ctx.probe('mixed_closures')
            if n > 1 and any((spec.get('bulk') or {}).values()):
                ctx.probe('bulk_assignment')
            if any(p.get('potential_sigma_factor') for p in spec['pairs'].values()):
                ctx.probe('potential_own_sigma')
            trivial_sys = all(p['closure']['cls'] == 'PercusYevick' and p['potential']['cls'] == 'HardSphere' and
                              p['omega']['cls'] in ('SingleSite', 'NoIntra') for p in spec['pairs'].values())
            with simroot.installed(sr):
                for step, op in enumerate(case['ops']):
                    ctx.tick()
                    ctx.log(step=step, op=op)
                    if op['op'] == 'cost':
                        # the user evaluates the cost function at a point of their own: the object no longer holds a solution
                        state['last_ok'] = None
                        self.op_cost(pp, spec, system, state, op, step, seed, grid, r_user, masks, ctx, mon)
                        continue
                    if op['op'] == 'post':
                        self.op_post(pp, spec, state, op, step, grid, r_user, ctx)
                        continue
                    if op['op'] == 'edit':
                        spec = copy.deepcopy(spec)
                        t = types[op['t'] % n]
                        if op['what'] == 'diameter':
                            sysgen.freeze_explicit_sigmas(spec)
                            dr = sysgen.domain_dr(spec['domain'])
                            spec['diameter'][t] = round(max(2 * dr, spec['diameter'][t] + op['k'] * dr), 10)
                            lib('diameter[]=', system.diameter.__setitem__, t, spec['diameter'][t])
                        elif op['what'] == 'density':
                            spec['density'][t] = spec['density'][t] * op['factor']
                            lib('density[]=', system.density.__setitem__, t, spec['density'][t])
                        else:
                            spec['kT'] = round(spec['kT'] * op['factor'], 6)
                            system.kT = spec['kT']
                        masks = oracles.core_masks(spec, r_user)
                        state['P'] = None
                        state['last_ok'] = None
                        ctx.probe('edit_same_system_' + op['what'])
                        continue
                    if op['op'] == 'regrid':
                        spec = copy.deepcopy(spec)
                        d = spec['domain']
                        d.pop('history', None)          # the new Domain is constructed directly
                        d['value'] = d['value'] * op['factor'] if d['via'] == 'dr' else d['value'] / op['factor']
                        grid = sysgen.refgrid(spec)
                        system = lib('build_system', sysgen.build_system, pp, spec)
                        r_user = np.array(system.domain.r, dtype=float, copy=True)
                        masks = oracles.core_masks(spec, r_user)
                        state['P'] = None
                        state['last_ok'] = None
                        ctx.probe('regrid_same_length')
                        continue
                    guess = None
                    if op['guess'] == 'noise':
                        guess = 0.05 * np_rng(seed, 'guess', step).standard_normal(N * n * n)
                    elif op['guess'] == 'prev' and state['prev_x'] is not None:
                        guess = np.copy(state['prev_x'])
                        ctx.probe('guess_previous_solution')
                    kw = dict(method=op['user']['method'], options=copy.deepcopy(op['user']['options']))
                    if guess is not None:
                        kw['guess'] = guess
                    try:
                        if op['via'] == 'system':
                            state['P'] = None
                            # monitors need the object while it is being solved: createPRISM + solve is what System.solve does
                            P = system.solve(**kw)
                            res = P.minimize_result
                        else:
                            if op.get('reuse') and state['P'] is not None:
                                P = state['P']
                                ctx.probe('same_object_solved_again')
                            else:
                                P = system.createPRISM()
                                state['P'] = P
                                if self.do_c03:
                                    self.install_closure_probes(pp, spec, P, r_user, masks, ctx)
                            try:
                                res = P.solve(**kw)
                            finally:
                                self.after_solve_attempt(pp, P)
                    except Violation:
                        raise
                    except Exception as e:
                        # exceptions escaping scipy on a divergent iteration are failed solves, not verdicts
                        ctx.log(solve_exception=type(e).__name__)
                        ctx.probe('solve_raised')
                        state['last_ok'] = None        # a re-used object is left mid-iteration by the failed solve
                        continue
                    state['P'] = P
                    rec = sr.records[-1] if sr.records else None
                    ok = bool(getattr(res, 'success', False)) and getattr(res, 'fun', None) is not None and np.all(np.isfinite(res.fun)) \
                        and np.all(np.isfinite(res.x))
                    ctx.log(step=step, success=ok, calls=rec.ncalls if rec else None)
                    if not ok:
                        ctx.probe('not_converged')
                        state['last_ok'] = None
                        continue
                    ctx.probe('converged')
                    ctx.probe('converged_' + op['user']['method'])
                    state['last_ok'] = (P, res)
                    state['prev_x'] = np.array(res.x, dtype=float, copy=True)
                    maxF = float(np.max(np.abs(res.fun)))
                    if maxF > 1e-3:
                        ctx.probe('success_with_large_residual')
                    site = 'solve/%s' % ('system' if op['via'] == 'system' else 'prism')
                    if self.do_c01:
                        oracles.stored(pp, P, grid, site)
                        oracles.check_omega(pp, spec, P, grid, site, ctx)
                        d = oracles.check_prism_equation(pp, spec, P, grid, site, ctx)
                        w = oracles.check_closures(pp, spec, P, res, grid, r_user, site, ctx)
                        ctx.raw(np.asarray(P.totalCorr.data))
                        ctx.log(prism_disc=float('%.3g' % d))
                        if not trivial_sys:
                            ctx.nontrivial = True
                    if self.do_c03:
                        oracles.stored(pp, P, grid, site)
                        oracles.check_core_solved(pp, spec, P, res, grid, r_user, site)
                        self.check_g_via_api(pp, spec, P, res, grid, r_user, site)
                        ctx.raw(np.asarray(P.totalCorr.data))
                        if mon['n'] >= 20 and any(not sysgen.is_hard_core(spec, a, b) for (a, b) in sysgen.pairs(types)):
                            ctx.probe('mixed_hard_soft')
                        if mon['n'] >= 20:
                            ctx.nontrivial = True
                    ctx.state(n, plan['mode'], tuple(sorted(plan.get('faults', {}))), op['user']['method'], op['guess'], op['via'],
                              bool(rec and rec.last_eval_is_root))
        ctx.info['callbacks'] = sum(r.ncalls for r in sr.records)

    # C03 hooks (overridden in c03.py)
    def monitor_eval(self, *a):
        pass

    def after_solve_attempt(self, *a):
        pass

    def op_post(self, *a):
        pass

    def install_closure_probes(self, *a):
        pass

    def op_cost(self, *a):
        pass

    # ------------------------------------------------------------------ shrinking
    def simplify(self, case):
        out = []
        cfg = case['config']
        plan = cfg['plan']
        # real solver instead of buggify/scripted (also classifies: reproducible with real scipy?)
        if plan['mode'] != 'real':
            c = copy.deepcopy(case)
            c['config']['plan'] = {'mode': 'real', 'budget': plan.get('budget', 1500)}
            out.append(c)
        if plan['mode'] == 'buggify' and len(plan['faults']) > 1:
            for k in sorted(plan['faults']):
                c = copy.deepcopy(case)
                del c['config']['plan']['faults'][k]
                out.append(c)
        spec = cfg['spec']
        # fewer types
        if len(spec['types']) > 1:
            for drop in reversed(spec['types']):
                c = copy.deepcopy(case)
                s = c['config']['spec']
                s['types'] = [t for t in s['types'] if t != drop]
                s['density'].pop(drop)
                s['diameter'].pop(drop)
                s['pairs'] = {k: v for k, v in s['pairs'].items() if drop not in k.split('|')}
                out.append(c)
        # smaller grid
        if spec['domain']['length'] > 32 and spec['domain']['via'] == 'dr':
            c = copy.deepcopy(case)
            c['config']['spec']['domain']['length'] = max(32, spec['domain']['length'] // 2)
            out.append(c)
        # simpler pieces
        for k, p in sorted(spec['pairs'].items()):
            if p['omega']['cls'] not in ('SingleSite', 'NoIntra'):
                c = copy.deepcopy(case)
                a, b = k.split('|')
                c['config']['spec']['pairs'][k]['omega'] = {'cls': 'SingleSite' if a == b else 'NoIntra', 'kw': {}}
                out.append(c)
            if p['potential']['cls'] != 'HardSphere':
                c = copy.deepcopy(case)
                c['config']['spec']['pairs'][k]['potential'] = {'cls': 'HardSphere', 'kw': {}}
                out.append(c)
            if p['closure']['cls'] != 'PercusYevick' or p['closure']['hc'] or p['closure'].get('alias'):
                c = copy.deepcopy(case)
                c['config']['spec']['pairs'][k]['closure'] = {'cls': 'PercusYevick', 'hc': False, 'alias': False}
                out.append(c)
        for i, o in enumerate(case['ops']):
            if o['op'] == 'solve' and (o['user']['method'] != 'krylov' or o['via'] != 'prism'):
                c = copy.deepcopy(case)
                c['ops'][i]['user'] = {'method': 'krylov', 'options': {'disp': False, 'maxiter': 200}}
                c['ops'][i]['via'] = 'prism'
                out.append(c)
        return out

    def expected_probes(self, tier):
        return ['last_eval_differs_from_root', 'success_with_large_residual', 'rank3', 'rank2', 'rank1', 'mixed_closures', 'nonpow2_length',
                'dk_constructed', 'converged', 'guess_previous_solution', 'regrid_same_length', 'bulk_assignment', 'potential_own_sigma', 'edit_same_system_diameter', 'edit_same_system_density',
                'edit_same_system_kT', 'domain_resized_in_place', 'same_object_solved_again', 'rank4', 'integer_grid', 'converged_krylov', 'converged_hybr', 'converged_lm',
                'converged_anderson', 'converged_broyden1', 'converged_df-sane']

    def rule(self):
        return ('Each run = one seed -> system record (1-3 types; N in 16..256 incl. non powers of two; Domain constructed from dr or dk, in 25% '
                'of runs built with another length/spacing and brought to its final form with the in-place setters; eta 0.005..0.45; diameters '
                'on/off grid; kT; per pair closure in {PY,HNC,(+hc flag),MSA(hc),MS(hc)} x potential in {HS,HCLJ,Exponential,LJ(cut,shift),WCA}, '
                '20% of flagged pairs with a potential that carries its own sigma (x0.8/0.9/1.1) x omega in {SingleSite,NoIntra,InterMolecular,'
                'Gaussian,GaussianRing,FJC,FromArray}; tables filled pair by pair or by one list x list statement plus overrides) '
                '+ solver plan (real | buggify{extra_eval_after_root, buffer_reuse, return_work_buffer, early_stop} | scripted Picard/Anderson '
                'returning best-so-far) + 1-2 solves via PRISM.solve (new object or the same object again) or System.solve with user '
                'method/options drawn from 9-11 scipy methods and guess in {zeros, noise, previous solution}; between two solves optionally '
                're-grid (new System, same length, dr x0.5|x2) or edit diameter|density|kT on the same System. Judged only when res.success '
                'and res.fun finite. Oracle: omega = rho_site o omega_spec(k_ref); H = Omega C (Omega+H) at every k (factor-magnitude / '
                'condition-number scaled); per pair |c - closure(h-c)| <= sup|dc/dgamma| * |reported F|/r + 1e-8*scale with closure and potential '
                'written from their definitions (simkit/physics.py) and scale = magnitude bound of the transform sum. Non-trivial: converged '
                'and not the (PY, HardSphere, SingleSite/NoIntra) textbook system. Distinct: run digests (event log + raw bytes of the solved '
                'totalCorr).')

    def abstract_measure(self):
        return '(rank, solver mode, fault kinds, user method, guess kind, entry point, last callback at root?)'

    def components(self):
        return {'real': ['pyPRISM.core.*', 'pyPRISM.closure.*', 'pyPRISM.potential.*', 'pyPRISM.omega.*', 'numpy', 'scipy.fftpack.dst',
                         'scipy.optimize.root (modes real and buggify)'],
                'stub': ['the calling script', 'root finder in mode scripted (pure-python Picard/Anderson)',
                         'fault wrapper around scipy.optimize.root in mode buggify']}

    def assumptions(self):
        return ['converged := res.success and res.fun, res.x finite (the statement\'s antecedent), not "residual small"',
                'NFJC and DiscreteKoyama omitted: cannot be evaluated with the pinned numpy/scipy',
                'a potential sigma different from the contact distance only together with a flagged closure (whose core is the contact distance)',
                'MSA/MS only with the hard-core flag (documented not to work on divergent potentials without it)',
                'closures and potentials of the oracle are written from their documented definitions (simkit/physics.py); omega(k) models '
                'are the repository classes freshly constructed from the record (C11 not claimed)',
                'wavenumbers with cond(I - Omega C) > 1e8 are counted (ill_conditioned_k), not judged',
                'CPython without -O; default numpy errstate']
