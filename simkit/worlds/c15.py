"""C15 -- Density and Diameter keep derived quantities consistent under any history.

SIM-H: seeded assignment / re-assignment histories, dict-of-floats model + closed formulas
checked for every assigned pair after every op.
"""
import math

import numpy as np

from ..core import Streams, Violation, import_pyprism
from .base import BaseWorld, lib, must_raise, wrap_keys, KEY_CONTAINERS, fresh_key
from .c14 import NAMESETS, gen_keys

TOL = 1e-12


def close(a, b):
    return abs(a - b) <= TOL * max(abs(a), abs(b), 1e-300)


def scalar(x, site, what):
    """The derived tables hold length-1 arrays (MatrixArray of length 1); accept a scalar too."""
    a = np.asarray(x, dtype=float).reshape(-1)
    if a.size != 1:
        raise Violation('derived_entry_not_scalar', site, {'what': what, 'shape': list(np.shape(x))})
    return float(a[0])


def gen_val(rng):
    if rng.random() < 0.1:
        # very dilute species: products of two such densities are far below any absolute floor one might be tempted to add
        return {'t': 'float', 'v': math.exp(rng.uniform(math.log(1e-12), math.log(1e-6)))}
    r = rng.random()
    if r < 0.15:
        return {'t': 'int', 'v': rng.randrange(1, 6)}
    if r < 0.3:
        return {'t': 'np', 'v': round(math.exp(rng.uniform(math.log(1e-4), math.log(50))), 6)}
    if r < 0.5:
        return {'t': 'float', 'v': rng.choice([0.1, 0.3, 0.5, 0.75, 1.0, 1.5, 2.0, 0.05])}
    return {'t': 'float', 'v': math.exp(rng.uniform(math.log(1e-4), math.log(50)))}


def mat(v):
    if v['t'] == 'int':
        return int(v['v'])
    if v['t'] == 'np':
        return np.float64(v['v'])
    return float(v['v'])


class World(BaseWorld):
    pid = 'C15'

    def gen(self, seed, tier):
        st = Streams(seed)
        rc, ro = st.get('config'), st.get('ops')
        types = list(rc.choice(NAMESETS))
        n = rc.randrange(2, 22) if tier != 'thorough' else rc.randrange(2, 50)
        w = {'dens': rc.uniform(1, 4), 'diam': rc.uniform(1, 4), 'check_dens': rc.uniform(0.2, 1),
             'check_diam': rc.uniform(0.2, 1)}
        order_bias = rc.random()
        names = sorted(w)
        ops = []
        for _ in range(n):
            k = ro.choices(names, [w[x] for x in names])[0]
            if k in ('dens', 'diam'):
                if order_bias < 0.3:
                    keys = ro.choice([types[0], types[-1]])      # hammer first/last type: staleness of rows/columns
                else:
                    keys = gen_keys(ro, types)
                ops.append({'op': k, 'k': keys, 'val': gen_val(ro), 'kc': ro.choice(KEY_CONTAINERS) if isinstance(keys, list) else 'list'})
            else:
                ops.append({'op': k})
        return {'config': {'types': types}, 'ops': ops}

    def run(self, case, ctx):
        pp = import_pyprism()
        types = list(case['config']['types'])
        D = lib('Density()', pp.Density, list(types))
        S = lib('Diameter()', pp.Diameter, list(types))
        dens, diam = {}, {}
        order = []
        ctx.probe('types%d' % len(types))

        def verify(step, opname):
            tot = math.fsum(float(v) for v in dens.values())
            got_tot = float(lib('total', lambda: D.total))
            if not close(got_tot, tot):
                raise Violation('total_stale', opname, {'got': got_tot, 'want': tot}, step)
            for a in types:
                got = lib('density[t]', D.__getitem__, fresh_key(a))
                if (a in dens) != (got is not None) or (a in dens and not close(float(got), float(dens[a]))):
                    raise Violation('density_value_wrong', opname, {'key': a, 'got': repr(got), 'want': dens.get(a)}, step)
                gd = lib('diameter[t]', S.__getitem__, fresh_key(a))
                if (a in diam) != (gd is not None) or (a in diam and not close(float(gd), float(diam[a]))):
                    raise Violation('diameter_value_wrong', opname, {'key': a, 'got': repr(gd), 'want': diam.get(a)}, step)
                if a in diam:
                    vol = lib('volume[t]', S.volume.__getitem__, fresh_key(a))
                    want = math.pi * float(diam[a]) ** 3 / 6.0
                    if vol is None or not close(float(vol), want):
                        raise Violation('volume_wrong', opname, {'key': a, 'got': vol, 'want': want}, step)
                for b in types:
                    if a in dens and b in dens:
                        ra, rb = float(dens[a]), float(dens[b])
                        gp = scalar(lib('pair[a,b]', D.pair.__getitem__, (fresh_key(a), fresh_key(b))), opname, 'pair')
                        if not close(gp, ra * rb):
                            raise Violation('pair_density_stale', opname, {'key': [a, b], 'got': gp, 'want': ra * rb}, step)
                        gs = scalar(lib('site[a,b]', D.site.__getitem__, (fresh_key(a), fresh_key(b))), opname, 'site')
                        ws = ra if a == b else ra + rb
                        if not close(gs, ws):
                            raise Violation('site_density_stale', opname, {'key': [a, b], 'got': gs, 'want': ws}, step)
                    if a in diam and b in diam:
                        ws = (float(diam[a]) + float(diam[b])) / 2.0
                        g1 = lib('sigma[a,b]', S.sigma.__getitem__, (fresh_key(a), fresh_key(b)))
                        g2 = lib('diameter[a,b]', S.__getitem__, [fresh_key(a), fresh_key(b)])
                        for g, what in ((g1, 'sigma[a,b]'), (g2, 'diameter[a,b]')):
                            if g is None or not close(float(g), ws):
                                raise Violation('sigma_stale', opname, {'key': [a, b], 'via': what, 'got': repr(g), 'want': ws}, step)

        for step, op in enumerate(case['ops']):
            name = op['op']
            ctx.tick()
            ctx.log(step=step, op=op)
            if name in ('dens', 'diam'):
                val = mat(op['val'])
                keys = op['k'] if isinstance(op['k'], list) else [op['k']]
                tbl, mdl = (D, dens) if name == 'dens' else (S, diam)
                lib(name + '.setitem', tbl.__setitem__, wrap_keys(fresh_key(op['k']), op.get('kc')), val)
                if isinstance(op['k'], list):
                    ctx.probe('list_assignment')
                    ctx.probe('keys_as_' + (op.get('kc') or 'list'))
                for t in keys:
                    if t in mdl and len(mdl) > 1:
                        ctx.probe('reassign_after_others')
                        ctx.nontrivial = True
                        if t == types[0] and len(mdl) == len(types) and len(types) > 1:
                            ctx.probe('reassign_first_type_last')
                    mdl[t] = val
                order.append((name, tuple(keys)))
            elif name == 'check_dens':
                if len(dens) == len(types):
                    lib('density.check', D.check)
                else:
                    must_raise('density.check', (ValueError,), D.check)
                    if dens:
                        ctx.probe('partial_then_check')
            elif name == 'check_diam':
                if len(diam) == len(types):
                    lib('diameter.check', S.check)
                else:
                    must_raise('diameter.check', (ValueError,), S.check)
                    if diam:
                        ctx.probe('partial_then_check')
            verify(step, name)
            ctx.state(len(types), tuple(sorted(types.index(t) for t in dens)), tuple(sorted(types.index(t) for t in diam)), name)

    def simplify(self, case):
        out = []
        # replace values by simple ones
        for i, o in enumerate(case['ops']):
            if 'val' in o and o['val'] != {'t': 'float', 'v': float(i + 2)}:
                c = dict(case)
                c['ops'] = [dict(x) for x in case['ops']]
                c['ops'][i]['val'] = {'t': 'float', 'v': float(i + 2)}
                out.append(c)
        return out

    def expected_probes(self, tier):
        return ['reassign_first_type_last', 'list_assignment', 'partial_then_check', 'reassign_after_others', 'types1', 'types4']

    def rule(self):
        return ('Each run = one seed -> type list (1-4) + 2-21 ops over {assign density / diameter to a single type or a list, '
                'in any order with re-assignment (30% of runs hammer the first/last type), Density.check, Diameter.check}; after every op, '
                'for every pair whose members are assigned: pair=rho_a*rho_b, site=rho_a | rho_a+rho_b, total=sum, sigma=(d_a+d_b)/2 via both '
                'sigma[a,b] and diameter[a,b], volume=pi d^3/6, both key orders (rel 1e-12). Non-trivial: some type was re-assigned '
                'after at least one other type had been assigned. Distinct: distinct run digests.')

    def abstract_measure(self):
        return '(number of types, set of assigned densities, set of assigned diameters, kind of last op)'

    def components(self):
        return {'real': ['pyPRISM.core.Density', 'pyPRISM.core.Diameter', 'pyPRISM.core.ValueTable', 'pyPRISM.core.PairTable',
                         'pyPRISM.core.MatrixArray'],
                'stub': ['the calling script'],
                'fault_kinds': 'none: SIM-H (history search only)'}

    def assumptions(self):
        return ['positive int / float / numpy.float64 values in [1e-4, 50]', 'relative tolerance 1e-12', 'CPython without -O']
