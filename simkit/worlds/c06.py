"""C06 -- post-processing is history independent and never corrupts the solved object.

SIM: one solved PRISM object under a simulated user history over {seven calculate functions with
every flag, user-initiated transforms of the three stored arrays, re-solve from its own solution},
with the root finder behind the simulator's seam.  Reference = a *shadow* object created from the
same System and taken through the same solve chain and nothing else; every reference call is made
on a deep copy of the shadow.
"""
import copy
import warnings

import numpy as np

from ..core import Streams, Violation, Skip, import_pyprism, np_rng
from .. import sysgen, simroot, oracles
from .base import BaseWorld, lib
from . import c01

TOL = 1e-8
PERT = 1e-11          # relative size of the harness' own perturbation used to measure conditioning
ARRAYS = ('totalCorr', 'directCorr', 'omega')
CALCS = {
    'pair_correlation': [{}],
    'structure_factor': [{'normalize': True}, {'normalize': False}],
    'pmf': [{}],
    'second_virial': [{'extrapolate': True}, {'extrapolate': False}],
    'chi': [{'extrapolate': True}, {'extrapolate': False}],
    'spinodal_condition': [{'extrapolate': True}, {'extrapolate': False}],
    'solvation_potential': [{'closure': 'HNC'}, {'closure': 'PY'}],
}


def flatten_result(pp, res, types):
    """calculate.* result -> ordered list of (label, value) with value float | ndarray | None | str"""
    out = []
    if isinstance(res, pp.MatrixArray):
        out.append(('space', oracles.space_name(pp, res)))
        d = np.asarray(res.data)
        out.append(('shape', tuple(d.shape)))
        for i, a in enumerate(types):
            for j, b in enumerate(types):
                out.append(('%s|%s' % (a, b), np.array(res[a, b], dtype=float, copy=True)))
        return 'MatrixArray', out
    if isinstance(res, pp.PairTable):
        for a in types:
            for b in types:
                v = res[a, b]
                if v is None:
                    out.append(('%s|%s' % (a, b), None))
                elif np.ndim(v) == 0:
                    out.append(('%s|%s' % (a, b), np.array([float(v)])))
                else:
                    out.append(('%s|%s' % (a, b), np.array(v, dtype=float, copy=True)))
        return 'PairTable', out
    return type(res).__name__, [('value', res)]


def call_calc(pp, P, op):
    fn = getattr(pp.calculate, op['fn'])
    kw = {k: op[k] for k in ('normalize', 'extrapolate', 'closure') if k in op}
    with warnings.catch_warnings():
        warnings.simplefilter('ignore')
        with np.errstate(all='ignore'):
            return fn(P, **kw)


def perturbed_copy(S, seed, step):
    """deep copy of the shadow whose three stored arrays carry harness-made relative noise PERT
    (symmetric in the type labels) -- used only to measure how ill-conditioned a result is"""
    Q = copy.deepcopy(S)
    for nm in ARRAYS:
        ma = getattr(Q, nm)
        d = np.asarray(ma.data)
        rs = np_rng(seed, 'pert', step, nm)
        z = rs.standard_normal(d.shape)
        z = (z + np.transpose(z, (0, 2, 1))) / 2.0
        m = float(np.max(np.abs(d))) if d.size else 0.0
        ma.data = d + PERT * m * z
    return Q


class World(BaseWorld):
    pid = 'C06'

    # ------------------------------------------------------------------ generation
    def gen(self, seed, tier):
        st = Streams(seed)
        rc, ro = st.get('config'), st.get('ops')
        rank = rc.choice([2, 2, 2, 3])
        spec = sysgen.gen_spec(rc, rank=rank, small=(rc.random() < 0.6), eta_max=0.35)
        n_unknowns = spec['domain']['length'] * rank ** 2
        plan = simroot.gen_plan(st.get('solver'))
        user = simroot.gen_user_solver(rc, n_unknowns)
        if rc.random() < 0.5:
            user = {'method': 'krylov', 'options': {'disp': False, 'maxiter': 200, 'line_search': rc.choice(['armijo', 'wolfe', None])}}
        w = {'pair_correlation': rc.uniform(0.3, 2), 'structure_factor': rc.uniform(0.3, 2), 'pmf': rc.uniform(0.2, 1.5),
             'second_virial': rc.uniform(0.3, 2), 'chi': rc.uniform(0.3, 2), 'spinodal_condition': rc.uniform(0.3, 2),
             'solvation_potential': rc.uniform(0.3, 2), 'transform': rc.uniform(0.5, 4), 'resolve': rc.uniform(0.0, 1.2)}
        names = sorted(w)
        n = ro.randrange(2, 26) if tier != 'thorough' else ro.choice([ro.randrange(2, 26), ro.randrange(20, 50)])
        ops = []
        for _ in range(n):
            k = ro.choices(names, [w[x] for x in names])[0]
            if k == 'transform':
                ops.append({'op': 'transform', 'array': ro.choice(ARRAYS)})
            elif k == 'resolve':
                ops.append({'op': 'resolve', 'guess': ro.choice(['x', 'x_live', 'x_live', 'res']), 'abort_at': ro.choice([None, None, None, 0, 1, 2, 5]),
                            'abort_guess': ro.choice(['same', 'zeros', 'noise'])})
            else:
                o = {'op': 'calc', 'fn': k}
                o.update(ro.choice(CALCS[k]))
                ops.append(o)
        batch = 'fault_free' if plan['mode'] == 'real' else ('fault_injecting' if plan['mode'] == 'buggify' else 'scripted_solver')
        return {'config': {'spec': spec, 'plan': plan, 'user': user, 'guess': rc.choice(['zeros', 'zeros', 'noise'])},
                'ops': ops, 'batch': batch}

    # ------------------------------------------------------------------ helpers
    def solve(self, pp, P, sr, user, guess):
        kw = dict(method=user['method'], options=copy.deepcopy(user['options']))
        if guess is not None:
            kw['guess'] = guess
        with simroot.installed(sr):
            with warnings.catch_warnings():
                warnings.simplefilter('ignore')
                with np.errstate(all='ignore'):
                    return P.solve(**kw)

    @staticmethod
    def converged(res):
        return bool(getattr(res, 'success', False)) and getattr(res, 'fun', None) is not None and \
            np.all(np.isfinite(res.fun)) and np.all(np.isfinite(res.x))

    def check_stored_vs_shadow(self, pp, P, S, grid, site, step):
        """omega / totalCorr / directCorr of P, brought into the shadow's space with the harness' own
        matrices on a copy, equal the shadow's; flags are Real or Fourier"""
        for nm in ARRAYS:
            a, b = getattr(P, nm), getattr(S, nm)
            sa, sb = oracles.space_name(pp, a), oracles.space_name(pp, b)
            if sa not in ('Real', 'Fourier'):
                raise Violation('space_flag_invalid', site, {'array': nm, 'flag': sa}, step)
            da = np.asarray(a.data, dtype=float)
            db = np.asarray(b.data, dtype=float)
            if da.shape != db.shape:
                raise Violation('stored_array_shape', site, {'array': nm, 'got': list(da.shape), 'want': list(db.shape)}, step)
            if sa == sb:
                got = da
                bound = np.abs(db)
            else:
                M = grid.F if sb == 'Fourier' else grid.R
                got = oracles.tr(M, da)
                bound = oracles.tr(np.abs(M), np.abs(da))
            if not np.all(np.isfinite(got)) and np.all(np.isfinite(db)):
                raise Violation('stored_array_not_finite', site, {'array': nm}, step)
            tol = TOL * (1.0 + np.maximum(bound, float(np.max(np.abs(db)))))
            bad = ~(np.abs(got - db) <= tol)
            if np.any(bad):
                k = np.unravel_index(int(np.argmax(np.where(bad, np.abs(got - db) / tol, 0))), db.shape)
                raise Violation('stored_array_differs_from_fresh', site, {
                    'array': nm, 'space_now': sa, 'index': [int(x) for x in k], 'got': float(got[k]), 'want': float(db[k]),
                    'tol': float(tol[k])}, step)

    def check_root_state(self, pp, P, res, grid, site, step):
        """after solve: P.x is res.x and the stored arrays are those cost() produces at res.x"""
        x = np.asarray(P.x, dtype=float)
        rx = np.asarray(res.x, dtype=float)
        if x.shape != rx.shape or not np.array_equal(x, rx):
            d = float(np.max(np.abs(x - rx))) if x.shape == rx.shape and np.all(np.isfinite(x)) else 'nan-or-shape'
            raise Violation('stored_x_is_not_returned_root', site, {'max_abs_diff': d}, step)
        Q = copy.deepcopy(P)
        with warnings.catch_warnings():
            warnings.simplefilter('ignore')
            with np.errstate(all='ignore'):
                Q.cost(np.copy(rx))
        if oracles.space_name(pp, P.totalCorr) != 'Real':
            raise Violation('totalCorr_not_real_after_solve', site, {'flag': oracles.space_name(pp, P.totalCorr)}, step)
        for nm in ('totalCorr', 'directCorr'):
            want = oracles.as_fourier(pp, getattr(Q, nm), grid, site)
            a = getattr(P, nm)
            da = np.asarray(a.data, dtype=float)
            if oracles.space_name(pp, a) == 'Fourier':
                got, bound = da, np.abs(want)
            else:
                got, bound = oracles.tr(grid.F, da), oracles.tr(np.abs(grid.F), np.abs(da))
            tol = TOL * (1.0 + np.maximum(bound, float(np.max(np.abs(want)))))
            bad = ~(np.abs(got - want) <= tol)
            if np.any(bad):
                k = np.unravel_index(int(np.argmax(np.where(bad, np.abs(got - want) / tol, 0))), want.shape)
                raise Violation('stored_arrays_not_those_of_returned_root', site, {
                    'array': nm, 'index': [int(i) for i in k], 'got': float(got[k]), 'want': float(want[k])}, step)

    def compare_results(self, pp, types, got, ref, pert, op, step, ctx, gref=None):
        kg, fg = flatten_result(pp, got, types)
        kr, fr = flatten_result(pp, ref, types)
        kp, fp = flatten_result(pp, pert, types)
        site = op['fn']
        if kg != kr or len(fg) != len(fr):
            raise Violation('result_type_differs_from_fresh', site, {'got': kg, 'want': kr}, step)
        for (lg, vg), (lr, vr), (lp, vp) in zip(fg, fr, fp):
            if isinstance(vr, np.ndarray):
                if not isinstance(vg, np.ndarray) or vg.shape != vr.shape:
                    raise Violation('result_differs_from_fresh', site, {'entry': lr, 'got': repr(vg)[:60], 'want_shape': list(vr.shape)}, step)
                mask = np.isfinite(vr) & np.isfinite(vp) if isinstance(vp, np.ndarray) and vp.shape == vr.shape else np.isfinite(vr)
                if op['fn'] == 'pmf' and gref is not None:
                    a, b = lr.split('|')
                    mask = mask & (gref[lr] > 1e-6)
                if not np.all(mask):
                    ctx.probe('result_points_unjudged', int(np.sum(~mask)))
                if not np.any(mask):
                    continue
                sens = float(np.max(np.abs(np.where(mask, vp - vr, 0.0)))) if isinstance(vp, np.ndarray) and vp.shape == vr.shape else 0.0
                scale = max(1.0, float(np.max(np.abs(vr[mask]))))
                if op['fn'] == 'pmf':
                    # d(pmf) = kT d(g)/g : elementwise conditioning on top of the norm-wise one
                    tol = TOL * scale + 100.0 * sens + TOL * scale / np.maximum(gref[lr], 1e-6)
                else:
                    tol = TOL * scale + 100.0 * sens
                with np.errstate(all='ignore'):
                    diff = np.abs(vg - vr)
                bad = mask & ~(diff <= tol)
                if np.any(bad):
                    k = int(np.argmax(np.where(bad, diff, -1)))
                    raise Violation('result_differs_from_fresh', site, {
                        'entry': lr, 'flags': {x: op[x] for x in op if x not in ('op', 'fn')}, 'index': k, 'got': float(vg[k]),
                        'want': float(vr[k]), 'tol': float(np.max(tol) if np.ndim(tol) else tol)}, step)
            else:
                if isinstance(vg, np.ndarray) or vg != vr:
                    raise Violation('result_differs_from_fresh', site, {'entry': lr, 'got': repr(vg)[:60], 'want': repr(vr)[:60]}, step)

    # ------------------------------------------------------------------ execution
    def run(self, case, ctx):
        pp = import_pyprism()
        cfg = case['config']
        spec, plan, user = cfg['spec'], cfg['plan'], cfg['user']
        seed = case['run_seed']
        types = spec['types']
        n = len(types)
        grid = sysgen.refgrid(spec)
        N = grid.N
        with warnings.catch_warnings():
            warnings.simplefilter('ignore')
            system = lib('build_system', sysgen.build_system, pp, spec)
        if np.shape(system.domain.r) != (N,):
            raise Skip('domain grid has %d points for length %d (C07 matter)' % (len(system.domain.r), N))
        srP = simroot.SimRoot(plan, ctx=ctx, stream_key=seed)
        srS = simroot.SimRoot(plan, ctx=None, stream_key=seed)      # same plan, same per-solve fault stream
        guess = None
        if cfg.get('guess') == 'noise':
            guess = 0.05 * np_rng(seed, 'guess', 0).standard_normal(N * n * n)
        ctx.probe('rank%d' % n)

        def first_solve(sr):
            with warnings.catch_warnings():
                warnings.simplefilter('ignore')
                P = system.createPRISM()
            try:
                res = self.solve(pp, P, sr, user, None if guess is None else np.copy(guess))
            except Violation:
                raise
            except Exception as e:
                raise Skip('initial solve raised %s' % type(e).__name__)
            if not self.converged(res):
                raise Skip('initial solve did not converge')
            return P, res
        P, resP = first_solve(srP)
        ctx.log(solved=True, calls=srP.records[-1].ncalls, last_eval_is_root=srP.records[-1].last_eval_is_root)
        self.check_root_state(pp, P, resP, grid, 'solve', -1)
        S, resS = first_solve(srS)
        # the shadow is "a fresh, identically solved object": same deterministic computation
        self.check_stored_vs_shadow(pp, P, S, grid, 'solve', -1)
        if not srP.records[-1].last_eval_is_root:
            ctx.probe('solve_with_stale_last_eval')
        resolved = False
        state_changed = False
        last = ('-', '-')
        seen_fn = set()
        for step, op in enumerate(case['ops']):
            ctx.tick()
            ctx.log(step=step, op=op)
            flags = tuple(oracles.space_name(pp, getattr(P, nm))[0] for nm in ARRAYS)
            kind = op['op']
            if kind == 'transform':
                ma = getattr(P, op['array'])
                dom = P.sys.domain
                if oracles.space_name(pp, ma) == 'Real':
                    lib('MatrixArray_to_fourier', dom.MatrixArray_to_fourier, ma)
                else:
                    lib('MatrixArray_to_real', dom.MatrixArray_to_real, ma)
                state_changed = True
                ctx.probe('transform_' + op['array'])
                name = 'T:' + op['array']
            elif kind == 'resolve':
                if oracles.space_name(pp, P.omega) != 'Fourier':
                    ctx.log(skipped='omega not in Fourier space')
                    ctx.probe('resolve_skipped_omega_real')
                    continue
                live = op['guess'] == 'x_live'          # P.solve(guess=P.x): the very array object, as users write it
                gP = np.copy(P.minimize_result.x) if op['guess'] == 'res' else np.copy(P.x)
                gS = np.copy(S.minimize_result.x) if op['guess'] == 'res' else np.copy(S.x)
                aborted = False
                if op.get('abort_at') is not None:
                    # a first attempt (from its own solution, or from another starting point) is interrupted by the user after k
                    # callbacks: the object is left mid-iteration; then the solve is repeated
                    ag = op.get('abort_guess', 'same')
                    if ag == 'zeros':
                        g0 = np.zeros_like(gP)
                    elif ag == 'noise':
                        g0 = gP + 0.05 * np_rng(seed, 'abortguess', step).standard_normal(gP.shape)
                    else:
                        g0 = np.copy(gP)
                    srP.abort_next = int(op['abort_at'])
                    try:
                        self.solve(pp, P, srP, user, g0)
                    except simroot.SolveAborted:
                        ctx.probe('resolve_aborted_then_retried')
                        aborted = True
                    except Exception:
                        pass
                    srP.abort_next = None
                if live and aborted and plan['mode'] != 'scripted' and user['method'] in ('hybr', 'lm'):
                    # MINPACK hands cost() a view of its own work array; after the aborted call that memory is gone and PRISM.x
                    # dangles (reading it is undefined and differs from run to run) -- the simulated user cannot sensibly pass it on
                    live = False
                    ctx.probe('live_x_dangles_after_aborted_minpack_solve')
                if live:
                    gP = P.x                             # whatever the object holds now (the aborted iterate after an abort)
                    ctx.probe('resolve_guess_is_the_live_x_object')
                identical_inputs = (not aborted or not live) and np.array_equal(np.asarray(gP), gS) and \
                    np.array_equal(np.asarray(P.omega.data), np.asarray(S.omega.data))
                outP = outS = None
                try:
                    rP = self.solve(pp, P, srP, user, gP)
                except Violation:
                    raise
                except Exception as e:
                    outP = type(e).__name__
                if identical_inputs:
                    # same deterministic computation on bit-identical inputs: outcome and arrays must agree
                    srS.force_index = srP.records[-1].index if srP.records else None
                    try:
                        rS = self.solve(pp, S, srS, user, gS)
                    except Exception as e:
                        outS = type(e).__name__
                    if outP or outS:
                        if outP != outS:
                            raise Violation('resolve_outcome_differs_from_fresh', 'solve', {'object': outP, 'fresh': outS}, step)
                        raise Skip('re-solve raised (%s / %s)' % (outP, outS))
                    okP, okS = self.converged(rP), self.converged(rS)
                    if okP != okS:
                        raise Violation('resolve_outcome_differs_from_fresh', 'solve', {'object_converged': okP, 'fresh_converged': okS}, step)
                    if not okP:
                        raise Skip('re-solve did not converge')
                    ctx.probe('resolve_inputs_bit_identical')
                else:
                    # omega was round-tripped by the user (or the guesses differ in the last bit): two runs of an iterative solver may
                    # legitimately end a solver-tolerance apart, so the shadow is not re-solved; it is evaluated at the object's new
                    # root ("a fresh object solved to the same root") and must reproduce the reported residual there
                    if outP:
                        raise Skip('re-solve raised (%s)' % outP)
                    if not self.converged(rP):
                        raise Skip('re-solve did not converge')
                    S.minimize_result = copy.deepcopy(rP)
                    with warnings.catch_warnings():
                        warnings.simplefilter('ignore')
                        with np.errstate(all='ignore'):
                            y = np.asarray(S.cost(np.array(rP.x, dtype=float, copy=True)), dtype=float)
                            if oracles.space_name(pp, S.totalCorr) == 'Fourier':
                                S.sys.domain.MatrixArray_to_real(S.totalCorr)
                    f = np.asarray(rP.fun, dtype=float)
                    sc = max(1.0, float(np.max(np.abs(rP.x))), float(np.max(np.abs(f))))
                    if y.shape != f.shape or not float(np.max(np.abs(y - f))) <= TOL * sc:
                        raise Violation('resolve_residual_not_reproduced_by_fresh', 'solve', {
                            'max_abs_diff': float(np.max(np.abs(y - f))) if y.shape == f.shape else 'shape', 'scale': sc}, step)
                    ctx.probe('resolve_inputs_differ_by_rounding')
                self.check_root_state(pp, P, rP, grid, 'resolve', step)
                if not srP.records[-1].last_eval_is_root:
                    ctx.probe('resolve_with_stale_last_eval')
                if state_changed:
                    ctx.probe('resolve_after_calc')
                resolved = True
                state_changed = True
                ctx.probe('resolve')
                name = 'resolve'
            else:
                fn = op['fn']
                gotexc = refexc = None
                try:
                    got = call_calc(pp, P, op)
                except Exception as e:
                    gotexc = e
                Sc = copy.deepcopy(S)
                try:
                    ref = call_calc(pp, Sc, op)
                except Exception as e:
                    refexc = e
                if gotexc is not None:
                    if refexc is not None and type(refexc) is type(gotexc):
                        ctx.probe('calc_raises_on_fresh_object_too')
                        ctx.log(both_raise=type(gotexc).__name__)
                        continue
                    raise Violation('unexpected_exception', fn, '%s: %s' % (type(gotexc).__name__, str(gotexc)[:200]), step)
                if refexc is not None:
                    raise Violation('result_differs_from_fresh', fn, {'fresh_raises': type(refexc).__name__}, step)
                try:
                    pert = call_calc(pp, perturbed_copy(S, seed, step), op)
                except Exception:
                    pert = ref
                gref = None
                if fn == 'pmf':
                    g = call_calc(pp, copy.deepcopy(S), {'fn': 'pair_correlation'})
                    gref = {'%s|%s' % (a, b): np.asarray(g[a, b], dtype=float) for a in types for b in types}
                self.compare_results(pp, types, got, ref, pert, op, step, ctx, gref)
                for (_, v) in flatten_result(pp, got, types)[1]:
                    if isinstance(v, np.ndarray):
                        ctx.raw(v)
                if flags[0] == 'F':
                    ctx.probe('calc_with_totalCorr_fourier')
                if flags[1] == 'R':
                    ctx.probe('calc_with_directCorr_real')
                if flags[2] == 'R':
                    ctx.probe('calc_with_omega_real')
                if fn in seen_fn:
                    ctx.probe('same_fn_twice')
                if 'spinodal_condition' in seen_fn and fn != 'spinodal_condition':
                    ctx.probe('spinodal_then_other')
                if fn == 'spinodal_condition' and 'spinodal_condition' in seen_fn and n == 3:
                    ctx.probe('rank3_spinodal_twice')
                seen_fn.add(fn)
                if state_changed:
                    ctx.nontrivial = True
                if fn in ('structure_factor', 'second_virial', 'chi', 'spinodal_condition', 'solvation_potential', 'pair_correlation', 'pmf'):
                    after = tuple(oracles.space_name(pp, getattr(P, nm))[0] for nm in ARRAYS)
                    if after != flags:
                        state_changed = True
                name = fn
                ctx.probe('calc_' + fn)
            self.check_stored_vs_shadow(pp, P, S, grid, name if kind == 'calc' else kind, step)
            last = (last[1], name)
            ctx.state(n, flags, last, resolved)

    # ------------------------------------------------------------------ shrinking
    def simplify(self, case):
        out = []
        # reuse C01's system/plan simplifications; rank must stay >= 2
        proxy = {'config': {'spec': case['config']['spec'], 'plan': case['config']['plan']}, 'ops': []}
        for c in c01.World.simplify(c01.World(), proxy):
            if len(c['config']['spec']['types']) < 2:
                continue
            d = copy.deepcopy(case)
            d['config']['spec'] = c['config']['spec']
            d['config']['plan'] = c['config']['plan']
            out.append(d)
        if case['config']['user']['method'] != 'krylov':
            d = copy.deepcopy(case)
            d['config']['user'] = {'method': 'krylov', 'options': {'disp': False, 'maxiter': 200}}
            out.append(d)
        if case['config'].get('guess') != 'zeros':
            d = copy.deepcopy(case)
            d['config']['guess'] = 'zeros'
            out.append(d)
        return out

    def signature(self, case, violation):
        return '%s@%s' % (violation['kind'], violation['site'])

    def expected_probes(self, tier):
        p = ['calc_with_totalCorr_fourier', 'calc_with_directCorr_real', 'calc_with_omega_real', 'same_fn_twice', 'spinodal_then_other',
             'rank3', 'rank2', 'resolve', 'resolve_after_calc', 'solve_with_stale_last_eval', 'rank3_spinodal_twice',
             'transform_totalCorr', 'transform_directCorr', 'transform_omega', 'resolve_aborted_then_retried', 'resolve_guess_is_the_live_x_object', 'resolve_inputs_bit_identical',
             'resolve_inputs_differ_by_rounding'] + ['calc_' + f for f in sorted(CALCS)]
        return p

    def rule(self):
        return ('Each run = one seed -> a 2- or 3-component system record (generator of C01, convergent regime) solved through the public API '
                'under the simulator-owned root-finder seam (real | buggify | scripted), then a history of 2-25 ops over {pair_correlation, '
                'structure_factor(normalize T|F), pmf, second_virial(extrapolate T|F), chi(T|F), spinodal_condition(T|F), '
                'solvation_potential(HNC|PY), user transform of totalCorr|directCorr|omega to the other space, re-solve from own x / '
                'minimize_result.x while omega is flagged Fourier (optionally preceded by an attempt the user aborts after k callbacks)}. After every op: the return value equals the same call on a deep copy of a '
                'shadow object (same System, same solve chain, nothing else) within 1e-8*max(1,|ref|) + 100*(measured sensitivity of the result '
                'to a 1e-11 relative perturbation of the stored arrays); omega/totalCorr/directCorr of the object equal the shadow\'s after being '
                'brought to the same space with the harness\' own sine matrices; after every solve P.x == res.x and the stored arrays are those '
                'cost(res.x) produces on a deep copy. Non-trivial: at least one calculate call executed after a state-changing op (transform, '
                'flag-changing calculate, re-solve). Distinct: run digests (event log + raw bytes of every result).')

    def abstract_measure(self):
        return '(rank, space flags of (totalCorr, directCorr, omega) before the op, last two op kinds, re-solved since start?)'

    def components(self):
        return {'real': ['pyPRISM.calculate.*', 'pyPRISM.core.*', 'pyPRISM.closure.*', 'pyPRISM.potential.*', 'pyPRISM.omega.*', 'numpy',
                         'scipy.fftpack.dst', 'scipy.optimize.root (modes real and buggify)'],
                'stub': ['the calling script', 'root finder in mode scripted', 'fault wrapper around scipy.optimize.root in mode buggify']}

    def assumptions(self):
        return ['only runs whose initial solve reports success with finite x and residual are judged',
                're-solve is offered only while omega is flagged Fourier (as quantified); a re-solve that does not converge or raises on the '
                'object and on the shadow alike ends the run unjudged',
                'pmf compared where the reference g > 1e-6; result entries that are non-finite on the fresh object are counted, not judged',
                'result tolerance includes a numerically measured conditioning term (chi, spinodal and the PY solvation potential cancel)',
                'mutating a returned result is not part of the alphabet (the statement quantifies over calls, not over what the user does '
                'with their results)',
                'NFJC and DiscreteKoyama omitted; CPython without -O; default numpy errstate']
