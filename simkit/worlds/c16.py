"""C16 -- a PRISM object is a faithful, isolated snapshot of a fully specified System.

SIM: one System object under a simulated user history that starts from an *empty* System
(partial specifications arise naturally), assigns / re-assigns every kind of item singly or by
lists, edits the Domain by replacement and in place, creates and solves PRISM objects in between
(parameter sweeps), re-solves older handles after later edits, and keeps an omega in a file that
the simulated disk rewrites, tears or loses between creates.  The root finder is behind the
simulator's seam, so "never starts a calculation on a partial system" is observed there, and every
reference solve sees exactly the solver behaviour (same per-solve fault stream) of the solve it
mirrors.  Oracle: a plain parameter record -> freshly built System.
"""
import copy
import hashlib
import math
import warnings

import numpy as np

from ..core import Streams, Violation, import_pyprism, np_rng, canon
from .. import sysgen, simroot, oracles, simdisk
from ..numerics import RefGrid
from .base import BaseWorld, lib, fresh_key
from . import c12

TOL = 1e-8
FILE = 'w.dat'


def empty_record(types, kT):
    return {'types': list(types), 'kT': kT, 'domain': None, 'density': {}, 'diameter': {},
            'pairs': {sysgen.pkey(a, b): {'potential': None, 'closure': None, 'omega': None, 'explicit_sigma': False}
                      for (a, b) in sysgen.pairs(types)}}


def missing(rec):
    out = []
    if rec['domain'] is None:
        out.append('domain')
    for t in rec['types']:
        if t not in rec['density']:
            out.append('density:%s' % t)
        if t not in rec['diameter']:
            out.append('diameter:%s' % t)
    for k, p in sorted(rec['pairs'].items()):
        for w in ('potential', 'closure', 'omega'):
            if p[w] is None:
                out.append('%s:%s' % (w, k))
    return out


def pairkey(types, a, b):
    return sysgen.pkey(a, b) if types.index(a) <= types.index(b) else sysgen.pkey(b, a)


def listify(x):
    return list(x) if isinstance(x, list) else [x]


def arr_sha(a):
    a = np.ascontiguousarray(np.asarray(a))
    return '%s%s:%s' % (a.dtype.str, list(a.shape), hashlib.sha256(a.tobytes()).hexdigest()[:16])


def obj_digest(o):
    """structural digest of a potential / closure / omega object (public state, no callables)"""
    if o is None:
        return None
    if isinstance(o, np.ndarray):
        return arr_sha(o)            # a private copy may hold evaluated tables instead of objects: still just state
    if not hasattr(o, '__dict__'):
        return repr(o)[:200]
    d = {'__class__': type(o).__name__}
    for k, v in sorted(vars(o).items()):
        if callable(v):
            continue
        if isinstance(v, np.ndarray):
            d[k] = arr_sha(v)
        elif isinstance(v, (int, float, str, bool)) or v is None:
            d[k] = repr(v)
        elif isinstance(v, (list, tuple)):
            d[k] = repr(v)[:200]
        else:
            d[k] = type(v).__name__
    return d


def system_digest(pp, s):
    types = list(s.types)
    d = {'types': [repr(t) for t in types], 'rank': s.rank, 'kT': repr(s.kT)}
    dom = getattr(s, 'domain', None)       # a System whose domain was never assigned may not even have the attribute
    if dom is None:
        d['domain'] = None
    else:
        d['domain'] = {'length': repr(dom.length), 'dr': repr(dom.dr), 'dk': repr(dom.dk), 'r': arr_sha(dom.r), 'k': arr_sha(dom.k),
                       'long_r': arr_sha(dom.long_r), 'c2': arr_sha(dom.DST_II_coeffs), 'c3': arr_sha(dom.DST_III_coeffs)}
    d['density'] = {repr(t): repr(s.density[t]) for t in types}
    d['density_total'] = repr(s.density.total)
    d['density_pair'] = arr_sha(s.density.pair.data)
    d['density_site'] = arr_sha(s.density.site.data)
    d['diameter'] = {repr(t): repr(s.diameter[t]) for t in types}
    d['sigma'] = {'%r|%r' % (a, b): repr(s.diameter.sigma[a, b]) for a in types for b in types}
    d['volume'] = {repr(t): repr(s.diameter.volume[t]) for t in types}
    for nm in ('potential', 'closure', 'omega'):
        tab = getattr(s, nm)
        d[nm] = {'%r|%r' % (a, b): obj_digest(tab[a, b]) for a in types for b in types}
    return canon(d)


def handle_digest(pp, P):
    """everything a later cost()/solve() of this PRISM object reads"""
    s = P.sys
    types = list(s.types)
    d = {'sys': system_digest(pp, s), 'omega': arr_sha(P.omega.data), 'omega_space': oracles.space_name(pp, P.omega)}
    for a in types:
        for b in types:
            c = s.closure[a, b]
            d['clo %r|%r' % (a, b)] = [type(c).__name__, repr(getattr(c, 'sigma', None)), repr(getattr(c, 'apply_hard_core', None)),
                                       arr_sha(c.potential) if getattr(c, 'potential', None) is not None else None]
    return canon(d)


class World(BaseWorld):
    pid = 'C16'

    # ------------------------------------------------------------------ generation
    def gen(self, seed, tier):
        st = Streams(seed)
        rc, ro = st.get('config'), st.get('ops')
        rank = rc.choice([1, 2, 2, 2, 3])
        target = sysgen.gen_spec(rc, rank=rank, small=True, eta_max=0.3)
        types = target['types']
        for kk, p in target['pairs'].items():
            p['explicit_sigma'] = False
            p.pop('potential_sigma_factor', None)
            # tables computed for one grid go stale at every Domain change: keep some, not most
            if p['omega']['cls'] == 'FromArray' and rc.random() < 0.6:
                a, b = kk.split('|')
                p['omega'] = {'cls': 'Gaussian', 'kw': {'sigma': 1.0, 'length': 10}} if a == b else {'cls': 'NoIntra', 'kw': {}}
        plan = simroot.gen_plan(st.get('solver'))
        n_unknowns = 128 * rank * rank
        user = simroot.gen_user_solver(rc, n_unknowns)
        if rc.random() < 0.6:
            user = {'method': 'krylov', 'options': {'disp': False, 'maxiter': 100, 'line_search': rc.choice(['armijo', 'wolfe', None])}}
        dom = target['domain']
        gdom = [dom['length'], sysgen.domain_dr(dom)]
        use_file = rc.random() < 0.35
        # ---- establishing ops
        est = [{'op': 'set_domain', 'domain': dom}]
        if rc.random() < 0.5:
            est.append({'op': 'set_density', 'types': list(types), 'value': target['density'][types[0]]})
            est += [{'op': 'set_density', 'types': t, 'value': target['density'][t]} for t in types[1:]]
        else:
            est += [{'op': 'set_density', 'types': t, 'value': target['density'][t]} for t in types]
        if rc.random() < 0.5:
            est.append({'op': 'set_diameter', 'types': list(types), 'value': target['diameter'][types[-1]]})
            est += [{'op': 'set_diameter', 'types': t, 'value': target['diameter'][t]} for t in types[:-1]]
        else:
            est += [{'op': 'set_diameter', 'types': t, 'value': target['diameter'][t]} for t in types]
        for what in ('potential', 'closure', 'omega'):
            prs = sysgen.pairs(types)
            if what != 'omega' and rc.random() < 0.4:
                a0, b0 = prs[0]
                est.append({'op': 'set_' + what, 'k1': list(types), 'k2': list(types), 'spec': target['pairs'][sysgen.pkey(a0, b0)][what]})
                prs = prs[1:]
            for (a, b) in prs:
                spec = target['pairs'][sysgen.pkey(a, b)][what]
                if what == 'potential' and rc.random() < 0.15:
                    spec = copy.deepcopy(spec)
                    spec['kw']['sigma'] = rc.choice([0.8, 0.9, 1.0, 1.1])
                if what == 'omega' and spec['cls'] == 'FromArray':
                    spec = copy.deepcopy(spec)
                    spec['kw']['grid'] = list(gdom)
                if what == 'omega' and use_file and a == b and a == types[0]:
                    spec = {'cls': 'FromFile', 'kw': {'name': FILE}}
                    est.append(self.gen_write(rc))
                if rc.random() < 0.3:
                    a, b = b, a
                est.append({'op': 'set_' + what, 'k1': a, 'k2': b, 'spec': spec})
        # keep list assignments before the single ones they are overridden by: shuffle groups by kind only
        first = [o for o in est if isinstance(o.get('types', o.get('k1')), list) or o['op'] in ('write',)]
        rest = [o for o in est if o not in first]
        rc.shuffle(rest)
        est = first + rest
        if rc.random() < 0.5:
            rc.shuffle(est[:len(first)])
        never_complete = rc.random() < 0.12
        if never_complete:
            cand = [i for i, o in enumerate(est) if not isinstance(o.get('types', o.get('k1')), list) and o['op'] != 'write']
            # dropping an item only leaves the system partial when no list assignment covers it
            if cand:
                est.pop(rc.choice(cand))
        ops = []
        for o in est:
            if ro.random() < 0.18:
                ops.append({'op': ro.choice(['create', 'solve_system', 'check'])})
            ops.append(o)
        ops.append({'op': ro.choice(['create', 'solve_system'])})
        # ---- sweep phase
        nsweep = ro.randrange(1, 5) if tier != 'thorough' else ro.randrange(1, 9)
        for _ in range(nsweep):
            for _ in range(ro.choice([1, 1, 2])):
                ops.append(self.gen_edit(ro, target, types, gdom, use_file))
            r = ro.random()
            if r < 0.55:
                ops.append({'op': 'solve_system', 'guess': ro.choice(['zeros', 'prev', 'prev'])})
            elif r < 0.8:
                ops.append({'op': 'create'})
                ops.append({'op': 'solve_handle', 'which': -1, 'guess': ro.choice(['zeros', 'prev']),
                            'abort_at': ro.choice([None, None, None, 0, 2, 7, 20])})
            else:
                ops.append({'op': 'create'})
            if ro.random() < 0.35:
                ops.append({'op': 'solve_handle', 'which': ro.randrange(0, 4), 'guess': 'zeros',
                            'abort_at': ro.choice([None, None, 0, 1, 3, 10, 30])})
            if ro.random() < 0.15:
                ops.append({'op': 'check'})
            if ro.random() < 0.3:
                # the user evaluates one of the System's own omega objects on the current grid (the plotting idiom of the docstrings)
                ops.append({'op': 'peek_omega', 'pair': ro.randrange(6)})
            if use_file and ro.random() < 0.35:
                # the omega file is rewritten (or torn, lost ...) between createPRISM and the first use of that PRISM object
                w_ = self.gen_write(ro)
                if ro.random() < 0.6:
                    w_.update(fault='clean', n='N')
                ops += [{'op': 'create'}, w_, {'op': 'solve_handle', 'which': -1, 'guess': 'zeros', 'abort_at': None}]
        batch = 'fault_free' if plan['mode'] == 'real' and not use_file else 'fault_injecting'
        return {'config': {'types': types, 'kT': target['kT'], 'plan': plan, 'user': user}, 'ops': ops, 'batch': batch}

    def gen_write(self, rng):
        return {'op': 'write', 'layout': rng.choice(['1col', '2col']), 'n': rng.choice(['N', 'N', 'N', 'N', 'N-1']),
                'fault': rng.choices(['clean', 'prefix', 'missing', 'lost', 'stale_tail'], [6, 2, 0.7, 1, 0.7])[0],
                'cut': rng.choice(['row_boundary', 'mid_number', 'last_number'])}

    def gen_edit(self, ro, target, types, gdom, use_file):
        kinds = ['density', 'density', 'kT', 'diameter', 'potential', 'closure', 'omega', 'domain', 'domain_inplace', 'domain_inplace']
        if use_file:
            kinds += ['write', 'write', 'write', 'write']
        k = ro.choice(kinds)
        if k == 'density':
            t = ro.choice(types)
            return {'op': 'set_density', 'types': t if ro.random() < 0.8 else list(types), 'value': target['density'][t] * ro.choice([0.5, 0.8, 1.2, 1.5])}
        if k == 'kT':
            return {'op': 'set_kT', 'value': round(target['kT'] * ro.choice([0.7, 0.9, 1.1, 1.5]), 4)}
        if k == 'diameter':
            t = ro.choice(types)
            m = max(2, int(round(ro.choice([0.8, 1.0, 1.2]) / gdom[1])))
            return {'op': 'set_diameter', 'types': t, 'value': round(m * gdom[1], 10)}
        if k in ('potential', 'closure', 'omega'):
            a, b = ro.choice(sysgen.pairs(types))
            if k == 'potential':
                spec = sysgen.gen_potential(ro)
                if ro.random() < 0.3:
                    # a potential that carries its own length scale (the closure still gets the pair's contact distance)
                    spec['kw']['sigma'] = ro.choice([0.8, 0.9, 1.0, 1.1])
            elif k == 'closure':
                spec = sysgen.gen_closure(ro, None)
            else:
                spec = sysgen.gen_omega_self(ro) if a == b else sysgen.gen_omega_cross(ro)
                if spec['cls'] == 'FromArray':
                    spec['kw']['grid'] = list(gdom)
            if ro.random() < 0.3:
                a, b = b, a
            r_ = ro.random()
            if len(types) > 1 and r_ < 0.3:
                # group assignments of other shapes than [types, types]: a list against a single name, two sub-lists
                shape = ro.choice(['list_single', 'single_list', 'sublists'])
                if shape == 'list_single':
                    return {'op': 'set_' + k, 'k1': list(types), 'k2': a, 'spec': spec}
                if shape == 'single_list':
                    return {'op': 'set_' + k, 'k1': a, 'k2': list(types), 'spec': spec}
                sub1 = [t for t in types if ro.random() < 0.6] or [a]
                sub2 = [t for t in types if ro.random() < 0.6] or [b]
                return {'op': 'set_' + k, 'k1': sub1, 'k2': sub2, 'spec': spec}
            return {'op': 'set_' + k, 'k1': a, 'k2': b, 'spec': spec}
        if k == 'domain':
            d = sysgen.gen_domain(ro, small=True)
            gdom[0], gdom[1] = d['length'], sysgen.domain_dr(d)
            return {'op': 'set_domain', 'domain': d}
        if k == 'domain_inplace':
            attr = ro.choice(['dr', 'dk', 'length', 'length'])
            if attr == 'length':
                v = ro.choice([16, 32, 48, 64, 96, 128, 100, 50])
                gdom[0] = v
            elif attr == 'dr':
                v = ro.choice([0.05, 0.1, 0.2, 0.25])
                gdom[1] = v
            else:
                v = round(math.pi / (gdom[0] * ro.choice([0.05, 0.1, 0.2, 0.25])), 6)
                gdom[1] = math.pi / (v * gdom[0])
            return {'op': 'edit_domain', 'attr': attr, 'value': v}
        return self.gen_write(ro)

    # ------------------------------------------------------------------ model helpers
    @staticmethod
    def make_obj(pp, what, spec, disk):
        if what == 'potential':
            return getattr(pp.potential, spec['cls'])(**spec['kw'])
        if what == 'closure':
            return sysgen.make_closure(pp, spec)
        if spec['cls'] == 'FromFile':
            return pp.omega.FromFile(disk.path(spec['kw']['name']))
        return sysgen.make_omega(pp, spec, None)

    def snapshot_record(self, rec, dr_live, disk, ctx):
        """record of a handle: the model at this moment, the live dr float, file content as literal values.
        Returns (record, must_raise_reason|None)"""
        r = copy.deepcopy(rec)
        N = r['domain']['length']
        r['domain'] = {'length': N, 'via': 'dr', 'value': dr_live}
        why = None
        kref = RefGrid(N, dr_live).k
        for k, p in r['pairs'].items():
            o = p['omega']
            if o is not None and o['cls'] == 'FromFile':
                kind, ncols, rows = simdisk.parse(disk.files.get(o['kw']['name']))
                if kind != 'cols' or ncols > 2:
                    why = 'file %s' % kind
                    continue
                if len(rows) != N or (ncols == 2 and len(rows) == 1):
                    why = 'file has %d rows on a %d-point grid' % (len(rows), N)
                    continue
                if ncols == 2:
                    q = c12.ratio(np.array([x[0] for x in rows]), kref)
                    mx = float(np.max(q)) if np.all(np.isfinite(q)) else np.inf
                    if 0.9 < mx < 1.1:
                        why = 'unjudged'
                        continue
                    if mx > 1:
                        why = 'file k column differs'
                        continue
                p['omega'] = {'cls': 'Literal', 'kw': {'values': [x[-1] for x in rows]}}
            elif o is not None and o['cls'] == 'FromArray' and o['kw'].get('grid'):
                g = o['kw']['grid']
                if g[0] != N:
                    why = 'table computed for %d points on a %d-point grid' % (g[0], N)
                elif o['kw'].get('with_k') and abs(g[1] - dr_live) > 1e-9 * dr_live:
                    q = c12.ratio(RefGrid(*g).k, kref)
                    mx = float(np.max(q))
                    if 0.9 < mx < 1.1:
                        why = 'unjudged'
                    elif mx > 1:
                        why = 'table k grid differs'
        return r, why

    def check_wiring(self, pp, rec, P, step, site):
        types = rec['types']
        grid = sysgen.refgrid(rec)
        dom = P.sys.domain
        if len(dom.r) != grid.N or abs(float(dom.dr) - grid.dr) > 1e-12 * grid.dr or \
                not np.all(np.abs(np.asarray(dom.r, dtype=float) - grid.r) <= 1e-12 * grid.r) or \
                not np.all(np.abs(np.asarray(dom.k, dtype=float) - grid.k) <= 1e-12 * grid.k):
            raise Violation('prism_domain_not_system_domain', site, {'length': len(dom.r), 'dr': float(dom.dr)}, step)
        # "on the domain grid": the grid's own floats decide which point is the contact point (C10's question, not this one)
        r_ref = np.array(dom.r, dtype=float, copy=True)
        for (a, b) in sysgen.pairs(types):
            p = rec['pairs'][sysgen.pkey(a, b)]
            sig = sysgen.sigma_ab(rec, a, b)
            for (x, y) in ((a, b), (b, a)):
                c = P.sys.closure[x, y]
                want_cls = p['closure']['cls']
                if not isinstance(c, getattr(pp.closure, want_cls)) or bool(c.apply_hard_core) != bool(p['closure']['hc']):
                    raise Violation('closure_not_from_system_state', site, {'pair': [x, y], 'got': type(c).__name__, 'want': want_cls}, step)
                if c.sigma is None or abs(float(c.sigma) - sig) > 1e-12 * max(1.0, sig):
                    raise Violation('closure_sigma_not_pair_contact_distance', site, {'pair': [x, y], 'got': repr(c.sigma), 'want': sig}, step)
                u = sysgen.ref_potential(pp, rec, a, b, r_ref)
                got = np.asarray(c.potential, dtype=float)
                if got.shape != u.shape:
                    raise Violation('closure_potential_shape', site, {'pair': [x, y], 'got': list(got.shape)}, step)
                with np.errstate(all='ignore'):
                    ok = (got == u) | (np.abs(got - u) <= 1e-10 * np.maximum(1.0, np.abs(u)))
                if not np.all(ok):
                    i = int(np.argmin(ok))
                    raise Violation('closure_potential_not_pair_potential_over_kT', site, {
                        'pair': [x, y], 'r': float(r_ref[i]), 'got': float(got[i]), 'want': float(u[i]), 'kT': rec['kT']}, step)
        try:
            oracles.check_omega(pp, rec, P, grid, site)
        except Violation as v:
            v.step = step
            raise
        if oracles.space_name(pp, P.omega) != 'Fourier':
            raise Violation('omega_not_flagged_fourier', site, None, step)
        if repr(P.sys.kT) != repr(rec['kT']):
            raise Violation('prism_kT_not_system_kT', site, {'got': repr(P.sys.kT), 'want': rec['kT']}, step)

    def do_solve(self, pp, P, sr, user, guess, index):
        sr.force_index = index
        kw = dict(method=user['method'], options=copy.deepcopy(user['options']))
        if guess is not None:
            kw['guess'] = np.copy(guess)
        with simroot.installed(sr):
            with warnings.catch_warnings():
                warnings.simplefilter('ignore')
                with np.errstate(all='ignore'):
                    try:
                        res = P.solve(**kw)
                        return res, None
                    except Violation:
                        raise
                    except Exception as e:
                        return None, type(e).__name__

    def compare_solved(self, pp, P, Q, outP, outQ, exact_inputs, step, site, ctx):
        (resP, excP), (resQ, excQ) = outP, outQ
        if excP or excQ:
            if excP != excQ and exact_inputs:
                raise Violation('solve_outcome_differs_from_fresh_system', site, {'swept': excP, 'fresh': excQ}, step)
            ctx.probe('solve_raised_both')
            return
        okP, okQ = bool(resP.success), bool(resQ.success)
        if not exact_inputs:
            # the swept and the fresh wiring differ by rounding only (e.g. dr derived from an in-place dk edit): two runs of an
            # iterative solver may then legitimately end a solver-tolerance apart.  Decide functionally instead: at the swept
            # solution the fresh object's cost function reproduces the swept residual and stored arrays.
            ctx.probe('wiring_differs_by_rounding')
            if not (okP and np.all(np.isfinite(resP.x)) and getattr(resP, 'fun', None) is not None and np.all(np.isfinite(resP.fun))):
                return
            Q2 = copy.deepcopy(Q)
            with warnings.catch_warnings():
                warnings.simplefilter('ignore')
                with np.errstate(all='ignore'):
                    y = np.asarray(Q2.cost(np.array(resP.x, dtype=float, copy=True)), dtype=float)
            f = np.asarray(resP.fun, dtype=float)
            sc = max(1.0, float(np.max(np.abs(resP.x))), float(np.max(np.abs(f))))
            if y.shape != f.shape or not float(np.max(np.abs(y - f))) <= TOL * sc:
                raise Violation('solve_differs_from_fresh_system', site, {'why': 'fresh cost function at the swept solution does not reproduce the swept residual',
                                                                         'max_abs_diff': float(np.max(np.abs(y - f))) if y.shape == f.shape else 'shape',
                                                                         'scale': sc, 'inputs_bit_identical': False}, step)
            grid = RefGrid(len(P.sys.domain.r), float(P.sys.domain.dr))
            for nm in ('totalCorr', 'directCorr'):
                want = oracles.as_fourier(pp, getattr(Q2, nm), grid, site)
                a = getattr(P, nm)
                da = np.asarray(a.data, dtype=float)
                if oracles.space_name(pp, a) == 'Fourier':
                    got, bound = da, np.abs(want)
                else:
                    got, bound = oracles.tr(grid.F, da), oracles.tr(np.abs(grid.F), np.abs(da))
                tolv = TOL * (1.0 + np.maximum(bound, float(np.max(np.abs(want)))))
                if not np.all(np.abs(got - want) <= tolv):
                    raise Violation('solve_differs_from_fresh_system', site, {'why': 'stored %s differs from the fresh object evaluated at the swept solution' % nm,
                                                                             'inputs_bit_identical': False}, step)
            ctx.probe('converged_solve_compared')
            return
        if okP != okQ:
            raise Violation('solve_outcome_differs_from_fresh_system', site, {'swept_success': okP, 'fresh_success': okQ}, step)
        tol = TOL
        for nm in ('x', 'totalCorr', 'directCorr'):
            a = np.asarray(P.x if nm == 'x' else getattr(P, nm).data, dtype=float)
            b = np.asarray(Q.x if nm == 'x' else getattr(Q, nm).data, dtype=float)
            if a.shape != b.shape:
                raise Violation('solve_differs_from_fresh_system', site, {'array': nm, 'shapes': [list(a.shape), list(b.shape)]}, step)
            fin = np.isfinite(a) & np.isfinite(b)
            if not np.array_equal(np.isfinite(a), np.isfinite(b)):
                raise Violation('solve_differs_from_fresh_system', site, {'array': nm, 'why': 'finiteness pattern'}, step)
            if not np.any(fin):
                continue
            sc = max(1.0, float(np.max(np.abs(b[fin]))))
            d = float(np.max(np.abs(a[fin] - b[fin])))
            if d == 0.0:
                ctx.probe('solve_bit_identical_to_fresh')
            if not d <= tol * sc:
                raise Violation('solve_differs_from_fresh_system', site, {'array': nm, 'max_abs_diff': d, 'scale': sc, 'converged': okP,
                                                                         'inputs_bit_identical': exact_inputs}, step)
        if okP:
            ctx.probe('converged_solve_compared')
        else:
            ctx.probe('unconverged_solve_compared')

    # ------------------------------------------------------------------ execution
    def run(self, case, ctx):
        pp = import_pyprism()
        with simdisk.SimDisk(ctx) as disk:
            self._run(pp, case, ctx, disk)

    def _run(self, pp, case, ctx, disk):
        cfg = case['config']
        seed = case['run_seed']
        types = list(cfg['types'])
        n = len(types)
        plan, user = cfg['plan'], cfg['user']
        rec = empty_record(types, cfg['kT'])
        with warnings.catch_warnings():
            warnings.simplefilter('ignore')
            system = lib('System()', pp.System, list(types), kT=cfg['kT'])
        sr = simroot.SimRoot(plan, ctx=ctx, stream_key=seed)
        srQ = simroot.SimRoot(plan, ctx=None, stream_key=seed)
        handles = []      # dicts: P, rec, digest, step, solved
        prev_x = [None]
        nsolve = [0]
        edits_since_create = [0]
        ctx.probe('rank%d' % n)

        def live_dr():
            return float(system.domain.dr)

        def model_check_domain(step, site):
            d = rec['domain']
            if d is None:
                return
            dom = system.domain
            if int(dom.length) != d['length'] or len(dom.r) != d['length'] or len(dom.k) != d['length']:
                raise Violation('domain_length_not_as_edited', site, {'want': d['length'], 'length': int(dom.length), 'len_r': len(dom.r)}, step)
            if abs(float(dom.dr) - d['dr']) > 1e-12 * d['dr'] or abs(float(dom.dr) * float(dom.dk) * d['length'] - math.pi) > 1e-12 * math.pi:
                raise Violation('domain_spacing_not_as_edited', site, {'want_dr': d['dr'], 'dr': float(dom.dr), 'dk': float(dom.dk)}, step)

        def fresh_prism(hrec, step, site):
            with warnings.catch_warnings():
                warnings.simplefilter('ignore')
                s2 = sysgen.build_system(pp, hrec)
                return s2.createPRISM()

        def attempt(kind, step, guess_kind=None):
            """create or solve through the System; returns the new handle or None"""
            miss = missing(rec)
            calls0 = sr.calls
            dg0 = system_digest(pp, system)
            site = 'createPRISM' if kind == 'create' else 'System.solve'
            guess = None
            if kind == 'solve' and guess_kind == 'prev' and prev_x[0] is not None and rec['domain'] is not None \
                    and prev_x[0].size == rec['domain']['length'] * n * n:
                guess = prev_x[0]
                ctx.probe('sweep_guess_previous_solution')
            P = None
            exc = None
            idx = nsolve[0]
            try:
                with warnings.catch_warnings():
                    warnings.simplefilter('ignore')
                    with np.errstate(all='ignore'):
                        if kind == 'create':
                            P = system.createPRISM()
                        else:
                            sr.force_index = idx
                            kw = dict(method=user['method'], options=copy.deepcopy(user['options']))
                            if guess is not None:
                                kw['guess'] = np.copy(guess)
                            with simroot.installed(sr):
                                P = system.solve(**kw)
            except Violation:
                raise
            except Exception as e:
                exc = e
            if miss:
                ctx.probe('attempt_on_partial_system')
                if len(miss) == 1:
                    ctx.probe('missing_only_' + miss[0].split(':')[0])
                if exc is None:
                    raise Violation('partial_system_accepted', site, {'missing': miss[:6]}, step)
                if not isinstance(exc, ValueError):
                    raise Violation('partial_system_wrong_exception', site, {'missing': miss[:6], 'got': type(exc).__name__,
                                                                            'msg': str(exc)[:120]}, step)
                if sr.calls != calls0:
                    raise Violation('calculation_started_on_partial_system', site, {'missing': miss[:6]}, step)
                if system_digest(pp, system) != dg0:
                    raise Violation('system_modified', site, {'when': 'rejected partial system'}, step)
                ctx.nontrivial = ctx.nontrivial or len(handles) > 0
                return None
            # ---- fully specified
            model_check_domain(step, site)
            hrec, why = self.snapshot_record(rec, live_dr(), disk, ctx)
            if why == 'unjudged':
                ctx.probe('unjudged_threshold')
                return None
            dg1 = system_digest(pp, system)
            if dg1 != dg0:
                raise Violation('system_modified', site, {'when': 'create' if kind == 'create' else 'solve'}, step)
            if why is not None:
                # tabulated omega does not fit the grid: must be rejected by create or by the first evaluation
                ctx.probe('stale_table_at_create')
                if exc is None and kind == 'create':
                    try:
                        with np.errstate(all='ignore'):
                            P.cost(np.zeros(rec['domain']['length'] * n * n))
                    except Exception as e:
                        exc = e
                if exc is None:
                    raise Violation('mismatched_table_accepted', site, {'why': why}, step)
                return None
            if kind == 'solve':
                nsolve[0] += 1
                if exc is None and (sr.calls != calls0 + 1 or not hasattr(P, 'minimize_result')):
                    raise Violation('system_solve_returned_unsolved_object', site, {'root_finder_calls': sr.calls - calls0,
                                                                                    'has_minimize_result': hasattr(P, 'minimize_result')}, step)
            if exc is not None and kind == 'create':
                raise Violation('complete_system_rejected', site, '%s: %s' % (type(exc).__name__, str(exc)[:160]), step)
            if exc is not None:
                # solve raised inside the root finder: the fresh reference must do the same
                Q = fresh_prism(hrec, step, site)
                with warnings.catch_warnings():
                    warnings.simplefilter('ignore')
                    exact = self.inputs_identical(system.createPRISM(), Q)
                outQ = self.do_solve(pp, Q, srQ, user, guess, idx)
                if outQ[1] != type(exc).__name__:
                    if exact:
                        raise Violation('solve_outcome_differs_from_fresh_system', site, {'swept': type(exc).__name__, 'fresh': outQ[1]}, step)
                    # wiring differs by rounding (e.g. dk-constructed Domain vs the (length, dr) reference): a diverging iteration may
                    # blow up at a different step
                    ctx.probe('wiring_differs_by_rounding')
                    return None
                ctx.probe('solve_raised_both')
                return None
            self.check_wiring(pp, hrec, P, step, site)
            if P.sys is system or P.sys.domain is system.domain:
                ctx.probe('prism_shares_objects_with_system')
            h = {'P': P, 'rec': hrec, 'step': step, 'solved': kind == 'solve', 'digest': handle_digest(pp, P) if kind == 'create' else None}
            if kind == 'create':
                # a second, *untouched* handle of the same moment: nothing of it is read until it is solved later, so that an
                # implementation which defers part of the snapshot (lazy evaluation) cannot be healed by the inspection above
                with warnings.catch_warnings():
                    warnings.simplefilter('ignore')
                    h['cold'] = system.createPRISM()
            if kind == 'solve':
                Q = fresh_prism(hrec, step, site)
                exact = self.inputs_identical(P, Q)
                outQ = self.do_solve(pp, Q, srQ, user, guess, idx)
                self.compare_solved(pp, P, Q, (P.minimize_result, None), outQ, exact, step, site, ctx)
                if getattr(P.minimize_result, 'success', False) and np.all(np.isfinite(P.minimize_result.x)):
                    prev_x[0] = np.array(P.minimize_result.x, dtype=float, copy=True)
                ctx.raw(np.asarray(P.totalCorr.data))
            if handles and edits_since_create[0] > 0:
                ctx.probe('create_or_solve_after_edit_after_create')
                ctx.nontrivial = True
            edits_since_create[0] = 0
            handles.append(h)
            ctx.probe('handle_created')
            return h

        for step, op in enumerate(case['ops']):
            ctx.tick()
            ctx.log(step=step, op=op)
            name = op['op']
            if name == 'set_domain':
                d = op['domain']
                system.domain = lib('Domain()', pp.Domain, length=d['length'], **{d['via']: d['value']})
                rec['domain'] = {'length': d['length'], 'dr': sysgen.domain_dr(d)}
                edits_since_create[0] += 1
            elif name == 'edit_domain':
                if rec['domain'] is None:
                    continue
                lib('Domain.%s=' % op['attr'], setattr, system.domain, op['attr'], op['value'])
                if op['attr'] == 'length':
                    rec['domain']['length'] = int(op['value'])
                    ctx.probe('inplace_domain_length_edit')
                elif op['attr'] == 'dr':
                    rec['domain']['dr'] = float(op['value'])
                else:
                    rec['domain']['dr'] = math.pi / (float(op['value']) * rec['domain']['length'])
                ctx.probe('inplace_domain_edit')
                edits_since_create[0] += 1
                model_check_domain(step, 'edit_domain')
            elif name == 'set_density':
                lib('density[]=', system.density.__setitem__, fresh_key(op['types']), op['value'])
                for t in listify(op['types']):
                    rec['density'][t] = float(op['value'])
                edits_since_create[0] += 1
            elif name == 'set_diameter':
                lib('diameter[]=', system.diameter.__setitem__, fresh_key(op['types']), op['value'])
                for t in listify(op['types']):
                    rec['diameter'][t] = float(op['value'])
                edits_since_create[0] += 1
            elif name == 'set_kT':
                system.kT = op['value']
                rec['kT'] = op['value']
                edits_since_create[0] += 1
            elif name in ('set_potential', 'set_closure', 'set_omega'):
                what = name[4:]
                obj = lib(what + '()', self.make_obj, pp, what, op['spec'], disk)
                lib('%s[]=' % what, getattr(system, what).__setitem__, (fresh_key(op['k1']), fresh_key(op['k2'])), obj)
                for a in listify(op['k1']):
                    for b in listify(op['k2']):
                        rec['pairs'][pairkey(types, a, b)][what] = copy.deepcopy(op['spec'])
                if isinstance(op['k1'], list) and isinstance(op['k2'], list):
                    ctx.probe('list_x_list_assignment')
                elif isinstance(op['k1'], list) or isinstance(op['k2'], list):
                    ctx.probe('list_x_single_assignment')
                edits_since_create[0] += 1
            elif name == 'write':
                if rec['domain'] is None:
                    continue
                N = rec['domain']['length']
                rs = np_rng(seed, 'write', step)
                m = c12.resolve_n(op['n'], N)
                vals = c12.omega_vals(m, rs)
                kcol = RefGrid(N, rec['domain']['dr']).k[:m] if m <= N else RefGrid(m, rec['domain']['dr']).k
                intended = c12.render(op['layout'], kcol, vals, '%.18e', False, False)
                cut = None
                if op['fault'] == 'prefix':
                    cut, cls = c12.pick_cut(intended, op['cut'], rs)
                    ctx.probe('torn_' + cls)
                disk.write(FILE, intended, op['fault'], cut)
                if handles:
                    ctx.probe('file_rewritten_between_creates')
                edits_since_create[0] += 1
            elif name == 'peek_omega':
                prs = sysgen.pairs(types)
                a, b = prs[op['pair'] % len(prs)]
                if rec['domain'] is not None and rec['pairs'][sysgen.pkey(a, b)]['omega'] is not None:
                    try:
                        with warnings.catch_warnings():
                            warnings.simplefilter('ignore')
                            system.omega[fresh_key(a), fresh_key(b)].calculate(system.domain.k)
                        ctx.probe('user_evaluated_system_omega')
                    except Exception:
                        ctx.probe('user_evaluated_system_omega_raised')
            elif name == 'check':
                miss = missing(rec)
                try:
                    with warnings.catch_warnings():
                        warnings.simplefilter('ignore')
                        system.check()
                    exc = None
                except Exception as e:
                    exc = e
                if miss and not isinstance(exc, ValueError):
                    raise Violation('check_passed_on_partial_system' if exc is None else 'partial_system_wrong_exception', 'System.check',
                                    {'missing': miss[:6], 'got': type(exc).__name__ if exc else None}, step)
                if not miss and exc is not None:
                    raise Violation('complete_system_rejected', 'System.check', '%s: %s' % (type(exc).__name__, str(exc)[:160]), step)
            elif name == 'create':
                attempt('create', step)
            elif name == 'solve_system':
                attempt('solve', step, op.get('guess'))
            elif name == 'solve_handle':
                cand = [h for h in handles if not h['solved']]
                if not cand:
                    continue
                h = cand[-1] if op['which'] == -1 else cand[op['which'] % len(cand)]
                P = h['P']
                Pc = h.get('cold') or P          # the object that is solved: the untouched twin when there is one
                N = h['rec']['domain']['length']
                guess = prev_x[0] if (op.get('guess') == 'prev' and prev_x[0] is not None and prev_x[0].size == N * n * n) else None
                if h['step'] != handles[-1]['step'] or edits_since_create[0] > 0:
                    ctx.probe('solve_old_handle_after_edit')
                    ctx.nontrivial = True
                if handle_digest(pp, P) != h['digest']:
                    raise Violation('handle_changed_by_later_edit', 'solve_handle', {'created_at_step': h['step']}, step)
                if op.get('abort_at') is not None:
                    # the user interrupts a first attempt at an arbitrary callback, then simply calls solve again
                    sr.abort_next = int(op['abort_at'])
                    sr.force_index = 10 ** 6 + step
                    kw = dict(method=user['method'], options=copy.deepcopy(user['options']))
                    try:
                        with simroot.installed(sr):
                            with warnings.catch_warnings():
                                warnings.simplefilter('ignore')
                                with np.errstate(all='ignore'):
                                    Pc.solve(**kw)
                    except simroot.SolveAborted:
                        ctx.probe('solve_aborted_then_retried')
                    except Exception:
                        pass
                    sr.abort_next = None
                idx = nsolve[0]
                nsolve[0] += 1
                Q = fresh_prism(h['rec'], step, 'solve_handle')
                outP = self.do_solve(pp, Pc, sr, user, guess, idx)
                exact = self.inputs_identical(Pc, Q)
                if not exact:
                    # whatever the solve did, what the handle was solved *with* must be what the System held when it was created
                    try:
                        a = np.asarray(Pc.omega.data, dtype=float)
                        b = np.asarray(Q.omega.data, dtype=float)
                        bad = a.shape != b.shape or not np.all(np.abs(a - b) <= 1e-10 * np.maximum(1.0, np.abs(b)))
                    except Exception as e:
                        bad = True
                    if bad:
                        raise Violation('handle_omega_not_that_of_its_creation', 'PRISM.solve', {'created_at_step': h['step']}, step)
                outQ = self.do_solve(pp, Q, srQ, user, guess, idx)
                self.compare_solved(pp, Pc, Q, outP, outQ, exact, step, 'PRISM.solve', ctx)
                h['solved'] = True
                if Pc is not P:
                    ctx.probe('untouched_handle_solved_later')
                if outP[0] is not None and getattr(outP[0], 'success', False) and np.all(np.isfinite(outP[0].x)):
                    prev_x[0] = np.array(outP[0].x, dtype=float, copy=True)
                    ctx.raw(np.asarray(Pc.totalCorr.data))
            # isolation: no unsolved handle is affected by anything that happened since it was created
            for h in handles:
                if not h['solved'] and handle_digest(pp, h['P']) != h['digest']:
                    raise Violation('handle_changed_by_later_edit', name, {'created_at_step': h['step']}, step)
            ctx.state(n, len(missing(rec)) == 0, name, min(len(handles), 3), min(edits_since_create[0], 2))
        ctx.info['handles'] = len(handles)

    @staticmethod
    def inputs_identical(P, Q):
        try:
            if not np.array_equal(np.asarray(P.omega.data), np.asarray(Q.omega.data)):
                return False
            for t1 in P.sys.types:
                for t2 in P.sys.types:
                    if not np.array_equal(np.asarray(P.sys.closure[t1, t2].potential), np.asarray(Q.sys.closure[t1, t2].potential), equal_nan=True):
                        return False
            for nm in ('r', 'k', 'long_r', 'DST_II_coeffs', 'DST_III_coeffs'):
                if not np.array_equal(np.asarray(getattr(P.sys.domain, nm)), np.asarray(getattr(Q.sys.domain, nm))):
                    return False
            return np.array_equal(P.sys.density.pair.data, Q.sys.density.pair.data) and np.array_equal(P.sys.density.site.data, Q.sys.density.site.data)
        except Exception:
            return False

    # ------------------------------------------------------------------ shrinking
    def simplify(self, case):
        out = []
        plan = case['config']['plan']
        if plan['mode'] != 'real':
            c = copy.deepcopy(case)
            c['config']['plan'] = {'mode': 'real', 'budget': plan.get('budget', 1500)}
            out.append(c)
        if case['config']['user']['method'] != 'krylov':
            c = copy.deepcopy(case)
            c['config']['user'] = {'method': 'krylov', 'options': {'disp': False, 'maxiter': 100}}
            out.append(c)
        for i, o in enumerate(case['ops']):
            if o['op'] == 'set_domain' and o['domain']['length'] > 32:
                c = copy.deepcopy(case)
                c['ops'][i]['domain']['length'] = 32
                out.append(c)
            if o['op'] == 'write' and o['fault'] != 'clean':
                c = copy.deepcopy(case)
                c['ops'][i]['fault'] = 'clean'
                out.append(c)
        return out

    def expected_probes(self, tier):
        return ['attempt_on_partial_system', 'missing_only_domain', 'missing_only_density', 'missing_only_diameter', 'missing_only_potential',
                'missing_only_closure', 'missing_only_omega', 'create_or_solve_after_edit_after_create', 'inplace_domain_length_edit',
                'inplace_domain_edit', 'file_rewritten_between_creates', 'solve_old_handle_after_edit', 'list_x_list_assignment',
                'converged_solve_compared', 'solve_bit_identical_to_fresh', 'sweep_guess_previous_solution', 'stale_table_at_create',
                'rank1', 'rank2', 'rank3', 'handle_created', 'solve_aborted_then_retried', 'untouched_handle_solved_later', 'list_x_single_assignment', 'user_evaluated_system_omega']

    def rule(self):
        return ('Each run = one seed -> an empty System (1-3 types) + a history: the assignments that establish a drawn target system (single keys '
                'and lists, either key order, shuffled; in 12% of runs one item is never assigned) with create/solve/check attempts interleaved, '
                'then 1-4 sweep steps of {re-assign density | diameter | kT | potential | closure | omega | replace Domain | edit Domain dr/dk/length '
                'in place | rewrite the omega file under a durability fault} followed by System.solve (guess zeros | previous solution) or '
                'createPRISM + PRISM.solve (in a third of the cases a first attempt is aborted by the user after k callbacks and retried), and solves of older handles. Checks: partial model => ValueError, root finder never called, System '
                'digest unchanged; complete => closure class/flag/sigma/potential(r)/kT and omega = rho_site o omega_spec(k) equal the parameter '
                'record, System digest unchanged by create/solve, digest of every unsolved handle unchanged by later edits and file rewrites, every '
                'solve equals the solve of a System freshly built from the record (same solver behaviour, same guess) to 1e-8 when the wiring is '
                'bit-identical (1e-5, converged only, otherwise); tabulated omegas that no longer fit the grid must be rejected by create or first '
                'cost. Non-trivial: a create/solve after an edit that followed an earlier create, or a solve of an old handle after an edit. '
                'Distinct: run digests.')

    def abstract_measure(self):
        return '(rank, model complete?, op kind, live handles (capped 3), edits since last create (capped 2))'

    def components(self):
        return {'real': ['pyPRISM.core.System/PRISM/PairTable/ValueTable/Density/Diameter/Domain', 'pyPRISM.closure.*', 'pyPRISM.potential.*',
                         'pyPRISM.omega.* incl. FromFile/FromArray', 'numpy.loadtxt on real scratch files', 'scipy.optimize.root (modes real, buggify)'],
                'stub': ['the calling script', 'root finder in mode scripted', 'fault wrapper around scipy root in mode buggify',
                         'writer + crash model of the omega file']}

    def assumptions(self):
        return ['edits go through the System\'s public attributes/tables and the Domain setters; potentials are constructed without an explicit '
                'sigma (the PRISM constructor derives it from the diameters on its private copy)',
                'the fresh reference Domain is built from (length, live dr float) after the live dr was checked against the model to 1e-12',
                'solves are compared whether or not they converge when all inputs are bit-identical (same deterministic computation)',
                'NFJC and DiscreteKoyama omitted; CPython without -O']
