"""C13 -- MatrixArray arithmetic matches per-matrix linear algebra without aliasing.

SIM-H: seeded histories of operator x operand kind x space flag x in-place/out-of-place on a
pool of MatrixArrays; model = independent ndarray operated on matrix by matrix; byte
snapshots of every pool member before/after every op; shares_memory checks.
"""
import operator

import numpy as np

from ..core import Streams, Violation, import_pyprism, np_rng
from .base import BaseWorld, lib, must_raise

SPACES = ['Real', 'Fourier', 'NonSpatial']
BIN = {'add': (operator.add, operator.iadd), 'sub': (operator.sub, operator.isub),
       'mul': (operator.mul, operator.imul), 'div': (operator.truediv, operator.itruediv)}
TYPESETS = {1: [['A'], ['poly'], [7]], 2: [['A', 'B'], ['p', 'solvent'], [10, 20], [1, 0]],
            3: [['A', 'B', 'C'], ['x', 'y', 'z'], [10, 20, 30], [1, 2, 3], [2, 0, 1]],
            4: [['A', 'B', 'C', 'D'], [4, 3, 2, 1], [3, 2, 1, 0]], 5: [['A', 'B', 'C', 'D', 'E'], ['a', 'b', 'c', 'd', 'e']]}
LAYOUTS = ['C', 'C', 'C', 'F', 'swap', 'block']
BADKEYS = ['__nope__', 0, 1, 'last_index', 99, -1, 'np0', 'trailing_space', 'other_case', 2.5]


def gen_data(seed_parts, L, r):
    """symmetric, diagonally dominant, |entries| >= 0.2 (well-conditioned; safe divisor)."""
    rs = np_rng(*seed_parts)
    a = rs.uniform(0.2, 1.0, size=(L, r, r)) * rs.choice([-1.0, 1.0], size=(L, r, r))
    a = (a + np.transpose(a, (0, 2, 1))) / 2.0
    a = np.where(np.abs(a) < 0.2, 0.2 * np.where(a >= 0, 1.0, -1.0), a)
    for i in range(r):
        a[:, i, i] = np.abs(a[:, i, i]) + r + 1.0
    return a


def model_bin(opn, A, B):
    """matrix-by-matrix application; B may be ndarray (L|1,r,r), (r,r), (L,1,1) or scalar."""
    if not np.isscalar(B) and getattr(B, 'ndim', 0) == 3 and A.shape[0] == 1 and B.shape[0] > 1:
        # a length-1 (density-like) array on the left of a length-L array: one result matrix per matrix of B
        f = {'add': operator.add, 'sub': operator.sub, 'mul': operator.mul, 'div': operator.truediv}[opn]
        return np.stack([f(A[0], B[l]) for l in range(B.shape[0])])
    L = A.shape[0]
    out = np.empty_like(A)
    f = {'add': operator.add, 'sub': operator.sub, 'mul': operator.mul, 'div': operator.truediv}[opn]
    for l in range(L):
        if np.isscalar(B):
            b = B
        elif B.ndim <= 2:
            b = B          # 0-d, (r,), (r,1), (1,r), (r,r): numpy's per-matrix broadcasting
        elif B.shape[0] == 1:
            b = B[0]
        else:
            b = B[l]
        out[l] = f(A[l], b)
    return out


def model_dot(A, B):
    out = np.empty_like(A)
    for l in range(A.shape[0]):
        out[l] = A[l].dot(B[l])
    return out


class World(BaseWorld):
    pid = 'C13'

    def gen(self, seed, tier):
        st = Streams(seed)
        rc, ro = st.get('config'), st.get('ops')
        r = rc.choice([1, 2, 2, 3, 3, 4, 5])
        L = rc.choice([1, 2, 3, 5, 8, 16, 31, 64, rc.randrange(1, 65)])
        if rc.random() < 0.15:
            L = r              # length == rank: a 1-D operand of that size is one value per column, not per matrix
        npool = rc.randrange(2, 5)
        # per-run flag mix (swarm): sometimes all equal, sometimes uniform
        mode = rc.random()
        if mode < 0.25:
            s = rc.choice(SPACES)
            flags = [s] * npool
        else:
            flags = [rc.choice(SPACES) for _ in range(npool)]
        types = rc.choice(TYPESETS[r])
        n = rc.randrange(2, 16) if tier != 'thorough' else rc.randrange(2, 36)
        w = {'bin': rc.uniform(2, 6), 'dot': rc.uniform(0.5, 2), 'invert': rc.uniform(0.3, 1.5), 'copy': rc.uniform(0.2, 1),
             'setitem': rc.uniform(0.3, 1.5), 'getitem': rc.uniform(0.2, 1), 'badtype': rc.uniform(0, 0.4),
             'new_identity': rc.uniform(0, 0.8), 'index_api': rc.uniform(0.2, 1.0)}
        n_identity = rc.choice([0, 0, 1, 2])
        p_inplace = rc.uniform(0.2, 0.8)
        names = sorted(w)
        ops = []
        for i in range(n):
            k = ro.choices(names, [w[x] for x in names])[0]
            o = {'op': k, 'i': ro.randrange(16)}
            if k == 'bin':
                o.update(fn=ro.choice(sorted(BIN)), inplace=ro.random() < p_inplace,
                         kind=ro.choices(['scalar', 'ndarray', 'ma', 'ma1', 'self', 'ma1_left'], [2, 2, 5, 2, 1, 1])[0],
                         j=ro.randrange(16), nd=ro.choice(['full', 'rr', 'L11', 'r', 'r', 'r1', '1r', '0d', 'list_r']),
                         scalar=ro.choice([2.0, -0.5, 3, 0.25, 1.5]))
            elif k == 'dot':
                o.update(how=ro.choice(['dot', 'dot_inplace', 'matmul', 'imatmul']), j=ro.randrange(16),
                         selfop=ro.random() < 0.15)
            elif k == 'invert':
                o.update(inplace=ro.choice([True, False, False, 'default']))
            elif k == 'index_api':
                o.update(which=ro.choice(['get', 'getMatrix', 'setMatrix']), a=ro.randrange(r), b=ro.randrange(r), l=ro.randrange(64))
            elif k in ('setitem', 'getitem'):
                o.update(a=ro.randrange(r), b=ro.randrange(r), scalar=ro.random() < 0.2)
            elif k == 'badtype':
                o.update(which=ro.choice(['get', 'set']), pos=ro.randrange(2), a=ro.randrange(r), bad=ro.choice(BADKEYS))
            elif k == 'new_identity':
                o.update(space=ro.choice(SPACES))
            ops.append(o)
        return {'config': {'rank': r, 'length': L, 'flags': flags, 'types': types, 'n_identity': n_identity,
                           'layouts': [rc.choice(LAYOUTS) for _ in flags]}, 'ops': ops}

    def run(self, case, ctx):
        pp = import_pyprism()
        cfg = case['config']
        r, L, types = cfg['rank'], cfg['length'], list(cfg['types'])
        seed = case['run_seed']
        SP = {n: getattr(pp.Space, n) for n in SPACES}
        pool = []

        def new_entry(data, space, layout='C'):
            # the user's array may have any memory layout (C / Fortran order, per-matrix transposed view, block of a larger array)
            if layout == 'F':
                udata = np.asfortranarray(data)
            elif layout == 'swap':
                udata = np.ascontiguousarray(np.swapaxes(data, 1, 2)).swapaxes(1, 2)
            elif layout == 'block':
                big = np.zeros((data.shape[0], r + 1, r + 2))
                big[:, :r, :r] = data
                udata = big[:, :r, :r]
            else:
                udata = np.copy(data)
            if layout != 'C':
                ctx.probe('data_layout_' + layout)
            ma = lib('MatrixArray()', pp.MatrixArray, length=data.shape[0], rank=r, data=udata, space=SP[space], types=list(types))
            return {'ma': ma, 'model': np.copy(data), 'space': space}

        lays = cfg.get('layouts') or []
        for n, fl in enumerate(cfg['flags']):
            pool.append(new_entry(gen_data((seed, 'pool', n), L, r), fl, lays[n] if n < len(lays) else 'C'))
        dens = new_entry(gen_data((seed, 'dens'), 1, r), 'NonSpatial')   # density-like, length 1

        def new_identity(space, site, step):
            I = lib('IdentityMatrixArray()', pp.IdentityMatrixArray, length=L, rank=r, space=SP[space], types=list(types))
            eye = np.broadcast_to(np.eye(r), (L, r, r))
            d = np.asarray(I.data)
            if d.shape != eye.shape or not np.array_equal(d, eye):
                raise Violation('new_identity_array_is_not_the_identity', site, {'max_abs_dev': float(np.max(np.abs(d - eye))) if d.shape == eye.shape else 'shape'}, step)
            for n, e in enumerate(pool + [dens]):
                if np.shares_memory(d, e['ma'].data):
                    raise Violation('result_shares_memory_with_operand', site, {'pool_index': n}, step)
            ctx.probe('identity_array_in_pool')
            return {'ma': I, 'model': np.array(eye, copy=True), 'space': space}

        for n in range(cfg.get('n_identity', 0)):
            pool.append(new_identity(cfg['flags'][n % len(cfg['flags'])], 'IdentityMatrixArray()', -1))
        ctx.probe('rank%d' % r)
        if L == 1:
            ctx.probe('length1')

        def snap():
            return [e['ma'].data.tobytes() for e in pool] + [dens['ma'].data.tobytes()]

        mag = [1.0]

        def check_entry(e, site, step, tol=1e-12):
            d = np.asarray(e['ma'].data)
            m = e['model']
            if d.shape != m.shape:
                raise Violation('shape_differs', site, {'got': list(d.shape), 'want': list(m.shape)}, step)
            if getattr(e['ma'], 'length', None) != m.shape[0] or getattr(e['ma'], 'rank', None) != m.shape[1]:
                raise Violation('length_or_rank_attribute_wrong', site, {'length': getattr(e['ma'], 'length', None), 'rank': getattr(e['ma'], 'rank', None),
                                                                        'data_shape': list(m.shape)}, step)
            scale = max(1.0, float(np.max(np.abs(m))), mag[0] if mag else 1.0)
            err = float(np.max(np.abs(d - m))) if m.size else 0.0
            if not (err <= tol * scale):
                raise Violation('value_differs_from_per_matrix_model', site, {'err': err, 'scale': scale}, step)

        def unchanged(before, after, allowed, site, step):
            for n, (b, a) in enumerate(zip(before, after)):
                if b != a and n not in allowed:
                    raise Violation('operand_or_bystander_modified', site, {'pool_index': n, 'allowed': sorted(allowed)}, step)

        def no_share(R, site, step):
            for n, e in enumerate(pool + [dens]):
                if R is e['ma']:
                    raise Violation('out_of_place_returned_operand', site, {'pool_index': n}, step)
                if np.shares_memory(R.data, e['ma'].data):
                    raise Violation('result_shares_memory_with_operand', site, {'pool_index': n}, step)

        def add_result(R, model, space):
            e = {'ma': R, 'model': model, 'space': space}
            if len(pool) < 7:
                pool.append(e)
            else:
                pool[len(pool) - 1] = e

        for step, op in enumerate(case['ops']):
            k = op['op']
            ctx.tick()
            ctx.log(step=step, op=op)
            i = op['i'] % len(pool)
            A = pool[i]
            # op-by-op refinement: the model of every array is re-synchronised with the (already verified)
            # actual data, so that each op is judged on its own rounding error only
            for e in pool:
                e['model'] = np.array(e['ma'].data, dtype=float, copy=True)
            before = snap()
            mag = [1.0]
            if k == 'bin':
                fn = op['fn']
                kind = op['kind']
                f_out, f_in = BIN[fn]
                other_space = None
                if kind == 'scalar':
                    B_lib, B_model = op['scalar'], op['scalar']
                elif kind == 'ndarray':
                    ndk = op['nd']
                    arr = gen_data((seed, 'nd', step), A['model'].shape[0] if ndk in ('full', 'L11') else 1, r)
                    if ndk == 'rr':
                        arr = arr[0]
                    elif ndk == 'L11':
                        arr = arr[:, :1, :1]
                    elif ndk in ('r', 'list_r'):
                        arr = np.ascontiguousarray(arr[0, 0, :])          # one value per column of every matrix
                    elif ndk == 'r1':
                        arr = np.ascontiguousarray(arr[0, :, :1])         # one value per row
                    elif ndk == '1r':
                        arr = np.ascontiguousarray(arr[0, :1, :])
                    elif ndk == '0d':
                        arr = np.array(float(arr[0, 0, 0]))
                    B_lib, B_model = (arr.tolist() if ndk == 'list_r' else arr), np.copy(arr)
                    ctx.probe('nd_' + ndk)
                    if arr.ndim == 1 and arr.shape[0] == A['model'].shape[0] and r > 1:
                        ctx.probe('nd_1d_operand_length_equals_rank')
                elif kind == 'ma1':
                    B_lib, B_model, other_space = dens['ma'], dens['model'], dens['space']
                    ctx.probe('broadcast_len1')
                elif kind == 'ma1_left':
                    # density.pair * totalCorr: the length-1 NonSpatial array is the LEFT operand (out of place only: an
                    # in-place op cannot grow its left operand)
                    B_lib, B_model, other_space = A['ma'], A['model'], A['space']
                    A = dens
                    op = dict(op, inplace=False)
                    ctx.probe('broadcast_len1_left')
                elif kind == 'self':
                    B_lib, B_model, other_space = A['ma'], A['model'], A['space']
                else:
                    Bj = pool[op['j'] % len(pool)]
                    B_lib, B_model, other_space = Bj['ma'], Bj['model'], Bj['space']
                pk = '%s%s|%s|%s-%s' % (fn, '_i' if op['inplace'] else '', kind, A['space'][0], (other_space or '-')[0])
                refuse = other_space is not None and {A['space'], other_space} == {'Real', 'Fourier'}
                if not refuse:
                    if fn == 'div':
                        bm = B_model if not np.isscalar(B_model) else np.array([B_model])
                        if float(np.min(np.abs(bm))) < 1e-3:
                            ctx.log(skipped='small divisor')
                            continue
                    if np.shape(B_model) and np.shape(B_model)[0] not in (A['model'].shape[0], 1, r) and not \
                            (A['model'].shape[0] == 1 and np.ndim(B_model) == 3):
                        ctx.log(skipped='length mismatch')
                        continue
                    if not np.isscalar(B_model) and B_model.ndim == 3 and B_model.shape[0] != A['model'].shape[0] and A['model'].shape[0] == 1 \
                            and op['inplace']:
                        ctx.log(skipped='left operand shorter (in place)')
                        continue
                    want = model_bin(fn, A['model'], B_model)
                    mag[0] = max(float(np.max(np.abs(A['model']))), float(np.max(np.abs(B_model))))
                    if not np.all(np.isfinite(want)) or float(np.max(np.abs(want))) > 1e8:
                        ctx.log(skipped='overflow')
                        continue
                if refuse:
                    must_raise(pk, (AssertionError,), (f_in if op['inplace'] else f_out), A['ma'], B_lib)
                    unchanged(before, snap(), set(), pk, step)
                    ctx.probe('refused_inplace' if op['inplace'] else 'refused_outofplace')
                elif op['inplace']:
                    R = lib(pk, f_in, A['ma'], B_lib)
                    if R is not A['ma']:
                        raise Violation('inplace_returned_new_object', pk, None, step)
                    A['model'] = want
                    # aliases of A in the pool (same object) share the model by construction
                    unchanged(before, snap(), {n for n, e in enumerate(pool) if e['ma'] is A['ma']}, pk, step)
                    check_entry(A, pk, step)
                    A['nin'] = A.get('nin', 0) + 1
                else:
                    R = lib(pk, f_out, A['ma'], B_lib)
                    unchanged(before, snap(), set(), pk, step)
                    no_share(R, pk, step)
                    e = {'ma': R, 'model': want}
                    check_entry(e, pk, step)
                    add_result(R, want, A['space'])
                if kind == 'ndarray' and not np.array_equal(np.asarray(B_lib), B_model):
                    raise Violation('ndarray_operand_modified', pk, None, step)
                ctx.probe(pk)
            elif k == 'dot':
                Bj = A if op['selfop'] else pool[op['j'] % len(pool)]
                how = op['how']
                pk = '%s|%s|%s-%s' % (how, 'self' if Bj is A else 'ma', A['space'][0], Bj['space'][0])
                refuse = {A['space'], Bj['space']} == {'Real', 'Fourier'}
                if A['model'].shape != Bj['model'].shape:
                    ctx.log(skipped='shape')
                    continue
                call = {'dot': lambda: A['ma'].dot(Bj['ma']), 'dot_inplace': lambda: A['ma'].dot(Bj['ma'], inplace=True),
                        'matmul': lambda: operator.matmul(A['ma'], Bj['ma']), 'imatmul': lambda: operator.imatmul(A['ma'], Bj['ma'])}[how]
                if refuse:
                    must_raise(pk, (AssertionError,), call)
                    unchanged(before, snap(), set(), pk, step)
                    ctx.probe('refused_dot')
                else:
                    want = model_dot(A['model'], Bj['model'])
                    if float(np.max(np.abs(want))) > 1e8:
                        ctx.log(skipped='overflow')
                        continue
                    R = lib(pk, call)
                    if how in ('dot_inplace', 'imatmul'):
                        if R is not A['ma']:
                            raise Violation('inplace_returned_new_object', pk, None, step)
                        A['model'] = want
                        unchanged(before, snap(), {n for n, e in enumerate(pool) if e['ma'] is A['ma']}, pk, step)
                        check_entry(A, pk, step, tol=1e-11)
                        A['nin'] = A.get('nin', 0) + 1
                    else:
                        unchanged(before, snap(), set(), pk, step)
                        no_share(R, pk, step)
                        check_entry({'ma': R, 'model': want}, pk, step, tol=1e-11)
                        add_result(R, want, A['space'])
                ctx.probe(pk)
            elif k == 'invert':
                pk = 'invert%s' % ('_i' if op['inplace'] is True else '')
                m = A['model']
                conds = [np.linalg.cond(m[l]) for l in range(m.shape[0])]
                if not np.all(np.isfinite(conds)) or max(conds) > 1e6:
                    ctx.log(skipped='ill-conditioned')
                    continue
                want = np.stack([np.linalg.inv(m[l]) for l in range(m.shape[0])])
                if op['inplace'] == 'default':
                    R = lib(pk, A['ma'].invert)          # documented default: out of place
                    op = dict(op, inplace=False)
                    ctx.probe('invert_default_args')
                else:
                    R = lib(pk, A['ma'].invert, inplace=op['inplace'])
                tol = 1e-12 * max(conds) * 10
                if op['inplace']:
                    if R is not A['ma']:
                        raise Violation('inplace_returned_new_object', pk, None, step)
                    old = m
                    A['model'] = want
                    unchanged(before, snap(), {n for n, e in enumerate(pool) if e['ma'] is A['ma']}, pk, step)
                    check_entry(A, pk, step, tol=tol)
                    prod = model_dot(old, np.asarray(A['ma'].data))
                    A['nin'] = A.get('nin', 0) + 1
                else:
                    unchanged(before, snap(), set(), pk, step)
                    no_share(R, pk, step)
                    check_entry({'ma': R, 'model': want}, pk, step, tol=tol)
                    # A.dot(A.invert()) is the identity -- through the library's own dot
                    P = lib('dot(invert)', A['ma'].dot, R)
                    prod = np.asarray(P.data)
                    add_result(R, want, A['space'])
                eye = np.broadcast_to(np.eye(r), prod.shape)
                if float(np.max(np.abs(prod - eye))) > 1e-10 * max(conds):
                    raise Violation('A_dot_Ainv_not_identity', pk, {'err': float(np.max(np.abs(prod - eye)))}, step)
                ctx.probe(pk)
            elif k == 'copy':
                C = lib('get_copy', A['ma'].get_copy)
                unchanged(before, snap(), set(), 'get_copy', step)
                no_share(C, 'get_copy', step)
                if np.asarray(C.data).tobytes() != before[i] or np.asarray(C.data).shape != A['model'].shape:
                    raise Violation('copy_differs_from_original', 'get_copy', None, step)
                # mutate the copy in place; the original must not move
                C.data += 1.0
                unchanged(before, snap(), set(), 'get_copy', step)
                add_result(C, np.asarray(C.data).copy(), A['space'])
                ctx.probe('get_copy')
            elif k == 'setitem':
                a, b = op['a'], op['b']
                Lc = A['model'].shape[0]
                val = 7.5 + step if op['scalar'] else np_rng(seed, 'set', step).uniform(1, 2, size=Lc)
                lib('setitem', A['ma'].__setitem__, (types[a], types[b]), val)
                A['model'] = np.copy(A['model'])
                A['model'][:, a, b] = val
                A['model'][:, b, a] = val
                unchanged(before, snap(), {n for n, e in enumerate(pool) if e['ma'] is A['ma']}, 'setitem', step)
                check_entry(A, 'setitem', step)
                d = np.asarray(A['ma'].data)
                if not (np.array_equal(d[:, a, b], A['model'][:, a, b]) and np.array_equal(d[:, b, a], A['model'][:, b, a])):
                    raise Violation('setitem_did_not_write_both_orders', 'setitem', {'key': [types[a], types[b]]}, step)
                got = lib('getitem', A['ma'].__getitem__, (types[b], types[a]))
                if not np.array_equal(np.asarray(got), A['model'][:, b, a]):
                    raise Violation('getitem_reversed_differs', 'setitem', {'key': [types[b], types[a]]}, step)
                ctx.probe('setitem_offdiag' if a != b else 'setitem_diag')
            elif k == 'getitem':
                a, b = op['a'], op['b']
                got = lib('getitem', A['ma'].__getitem__, (types[a], types[b]))
                if not np.array_equal(np.asarray(got), np.asarray(A['ma'].data)[:, a, b]):
                    raise Violation('getitem_wrong_slice', 'getitem', {'key': [types[a], types[b]]}, step)
                check_entry(A, 'getitem', step)
                if A.get('nin', 0) >= 2:
                    ctx.nontrivial = True
                ctx.probe('getitem')
            elif k == 'badtype':
                key = [types[op['a']], types[op['a']]]
                bad = op.get('bad', '__nope__')
                # names that are *not* types of this array, including ones that look like positions (0, 1, rank-1, numpy ints)
                if bad == 'last_index':
                    bad = r - 1
                elif bad == 'np0':
                    bad = np.int64(0)
                elif bad == 'trailing_space':
                    bad = str(types[0]) + ' '
                elif bad == 'other_case':
                    bad = str(types[0]).swapcase() if str(types[0]).swapcase() != str(types[0]) else '__nope__'
                if bad in types:
                    ctx.log(skipped='is a type')
                    continue
                if not isinstance(bad, str):
                    ctx.probe('unknown_type_looks_like_index')
                key[op['pos']] = bad
                if op['which'] == 'get':
                    must_raise('getitem_unknown', (ValueError,), A['ma'].__getitem__, tuple(key))
                else:
                    must_raise('setitem_unknown', (ValueError,), A['ma'].__setitem__, tuple(key), 1.0)
                    unchanged(before, snap(), set(), 'setitem_unknown', step)
                ctx.probe('unknown_type_' + op['which'])
            elif k == 'index_api':
                Lc = A['model'].shape[0]
                li = op['l'] % Lc
                if op['which'] == 'get':
                    got = lib('get', A['ma'].get, op['a'], op['b'])
                    if not np.array_equal(np.asarray(got), np.asarray(A['ma'].data)[:, op['a'], op['b']]):
                        raise Violation('get_by_index_wrong_slice', 'get', {'index': [op['a'], op['b']]}, step)
                elif op['which'] == 'getMatrix':
                    got = lib('getMatrix', A['ma'].getMatrix, li)
                    if not np.array_equal(np.asarray(got), np.asarray(A['ma'].data)[li]):
                        raise Violation('getMatrix_wrong_matrix', 'getMatrix', {'index': li}, step)
                else:
                    val = gen_data((seed, 'setM', step), 1, r)[0]
                    lib('setMatrix', A['ma'].setMatrix, li, np.copy(val))
                    A['model'] = np.copy(A['model'])
                    A['model'][li] = val
                    unchanged(before, snap(), {n for n, e in enumerate(pool) if e['ma'] is A['ma']}, 'setMatrix', step)
                    check_entry(A, 'setMatrix', step)
                    if not np.array_equal(np.asarray(A['ma'].data)[li], val):
                        raise Violation('setMatrix_did_not_write', 'setMatrix', {'index': li}, step)
                if op['which'] != 'setMatrix':
                    unchanged(before, snap(), set(), op['which'], step)
                ctx.probe('index_api_' + op['which'])
            elif k == 'new_identity':
                # an identity array created now is the identity whatever was done to earlier ones, and is a bystander afterwards
                e = new_identity(op['space'], 'IdentityMatrixArray()', step)
                unchanged(before, snap(), set(), 'IdentityMatrixArray()', step)
                if len(pool) < 7:
                    pool.append(e)
                else:
                    pool[len(pool) - 1] = e
                if any(x.get('nin', 0) >= 1 for x in pool):
                    ctx.probe('identity_created_after_inplace_ops')
            if any(e.get('nin', 0) >= 2 for e in pool):
                ctx.probe('two_inplace_same_array')
                ctx.nontrivial = True
            ctx.state(r, min(L, 2), tuple(sorted(set(e['space'][0] for e in pool))), k, op.get('fn') or op.get('how'), bool(op.get('inplace')))

    def simplify(self, case):
        out = []
        cfg = case['config']
        if cfg['length'] > 1:
            c = dict(case)
            c['config'] = dict(cfg, length=max(1, cfg['length'] // 2))
            out.append(c)
        return out

    def expected_probes(self, tier):
        ex = ['broadcast_len1', 'refused_inplace', 'refused_outofplace', 'refused_dot', 'get_copy', 'two_inplace_same_array',
              'unknown_type_get', 'unknown_type_set', 'setitem_offdiag', 'invert', 'invert_i', 'length1', 'identity_array_in_pool',
              'identity_created_after_inplace_ops', 'nd_1d_operand_length_equals_rank', 'unknown_type_looks_like_index', 'broadcast_len1_left', 'data_layout_F', 'data_layout_swap', 'data_layout_block', 'index_api_get', 'index_api_getMatrix', 'index_api_setMatrix', 'invert_default_args', 'nd_r', 'nd_r1', 'nd_1r', 'nd_0d', 'nd_list_r',
              'nd_full', 'nd_rr', 'nd_L11']
        if tier == 'thorough':
            for fn in sorted(BIN):
                for ip in ('', '_i'):
                    for a in 'RFN':
                        for b in 'RFN':
                            ex.append('%s%s|ma|%s-%s' % (fn, ip, a, b))
                    for kind in ('scalar', 'ndarray'):
                        for a in 'RFN':
                            ex.append('%s%s|%s|%s--' % (fn, ip, kind, a))
            for how in ('dot', 'dot_inplace', 'matmul', 'imatmul'):
                for a in 'RFN':
                    for b in 'RFN':
                        ex.append('%s|ma|%s-%s' % (how, a, b))
        return ex

    def rule(self):
        return ('Each run = one seed -> rank 1-5, length 1-64, pool of 2-4 MatrixArrays with flags from {Real,Fourier,NonSpatial} plus one '
                'length-1 NonSpatial density-like array and 0-2 IdentityMatrixArrays (15% of runs have length == rank), then 2-15 ops over '
                '{new IdentityMatrixArray (must be the identity, sharing no memory), +,-,*,/ (out-of-place / in-place) with scalar | ndarray '
                '(full,(r,r),(L,1,1),(r,),(r,1),(1,r),0-d, python list) | MatrixArray | length-1 MatrixArray | itself; dot/@/@=/dot(inplace); invert in/out of place; get_copy '
                '(+mutation of the copy); setitem/getitem by type names in both orders; unknown type names}. After every op: result vs '
                'per-matrix numpy model, byte snapshots of every pool member (only the left operand of an in-place op may change), '
                'shares_memory(result, every pool member) is False, Real x Fourier refused with AssertionError and no change, '
                'A.dot(A.invert()) = I. Non-trivial: >= 2 in-place ops hit the same array and it was read back. Distinct: run digests.')

    def abstract_measure(self):
        return '(rank, length==1?, set of flags in pool, op kind, operator, in-place?)'

    def components(self):
        return {'real': ['pyPRISM.core.MatrixArray', 'pyPRISM.core.IdentityMatrixArray', 'pyPRISM.core.Space', 'numpy (einsum, linalg.inv)'],
                'stub': ['the calling script'], 'fault_kinds': 'none: SIM-H (history search only)'}

    def assumptions(self):
        return ['symmetric diagonally dominant data, |entries| >= 0.2, results capped at 1e8 (op skipped by the model otherwise)',
                'invert only when cond <= 1e6', 'length-1 arrays only as right operands', 'CPython without -O (space refusals are asserts)']
