"""C12 -- tabulated omega is used verbatim on a matching grid and rejected otherwise.

SIM: omega.FromFile is the library's only I/O; it re-reads its file at every evaluation.  The
simulator owns the disk (simdisk.py): what a write leaves durable (clean, torn prefix, lost,
empty, missing, duplicated, stale tail) and whether a read fails mid-way (EIO).  The user side of
the history (Domain changes in place or by replacement, re-use of one FromFile object across
grids and rewrites, FromArray construction from caller-owned arrays that are mutated afterwards,
building and evaluating PRISM objects) is drawn from the seed.  Oracle: an independent tokenizer
of the bytes actually on disk at the instant of the read -> verbatim or must-raise.
"""
import copy
import math
import warnings

import numpy as np

from ..core import Streams, Violation, import_pyprism, np_rng
from .. import simdisk
from .base import BaseWorld, lib

LENGTHS = [2, 3, 4, 5, 8, 9, 16, 17, 24, 31, 32, 50, 64, 100]
NSPEC = ['N'] * 11 + ['N-1', 'N+1', 'N//2', '2N', '1', '2', '0', 'N-2']
FMTS = ['%.18e', '%.18e', '%.17g', '%.10e', '%.6e', '%.4e', '%r']
NAMES = ['a.dat', 'b.dat']
RTOL, ATOL = 1e-5, 1e-8


def resolve_n(spec, N):
    return max(0, {'N': N, 'N-1': N - 1, 'N+1': N + 1, 'N//2': N // 2, '2N': 2 * N, '1': 1, '2': 2, '0': 0, 'N-2': N - 2}[spec])


def gen_kgrid(rng):
    r = rng.random()
    if r < 0.5:
        return {'kind': 'exact'}
    if r < 0.58:
        return {'kind': 'shift', 'rel': rng.choice([1e-3, 0.5, 1.0])}
    if r < 0.7:
        return {'kind': 'scale', 'eps': rng.choice([1e-3, 1e-4, 3e-5, 1e-6, 1e-7, -1e-4, -1e-6])}
    if r < 0.9:
        return {'kind': 'point', 'where': rng.choice(['first', 'last', 'mid', 'rand']), 'f': rng.choice([0.1, 0.5, 2.0, 10.0, -0.5, -10.0, 1e4])}
    if r < 0.93:
        return {'kind': 'other_domain', 'factor': rng.choice([2.0, 0.5, 1.01])}
    if r < 0.96:
        # the right k values in the wrong order (descending table, two rows exchanged)
        return {'kind': 'permute', 'how': rng.choice(['reverse', 'swap2', 'swap2'])}
    if r < 0.985:
        return {'kind': 'nonfinite', 'val': rng.choice(['nan', 'nan', 'inf', '-inf']), 'where': rng.choice(['first', 'last', 'rand'])}
    return {'kind': 'r_grid'}


def make_kcol(kg, k, r, m, rs):
    """k column of m points following spec kg relative to the domain grid k (len N)"""
    N = len(k)
    dk = k[0]
    base = dk * np.arange(1, m + 1) if m != N else np.array(k, dtype=float, copy=True)
    kind = kg['kind']
    if kind == 'exact':
        return base
    if kind == 'shift':
        return base + kg['rel'] * dk
    if kind == 'scale':
        return base * (1.0 + kg['eps'])
    if kind == 'point':
        if m == 0:
            return base
        j = {'first': 0, 'last': m - 1, 'mid': m // 2}.get(kg['where'])
        if j is None:
            j = int(rs.randint(0, m))
        out = np.copy(base)
        out[j] = out[j] + kg['f'] * (ATOL + RTOL * abs(out[j]))
        return out
    if kind == 'other_domain':
        return base * kg['factor']
    if kind == 'permute':
        out = np.copy(base)
        if m >= 2:
            if kg['how'] == 'reverse':
                out = out[::-1].copy()
            else:
                i = int(rs.randint(0, m - 1))
                out[i], out[i + 1] = out[i + 1], out[i]
        return out
    if kind == 'nonfinite':
        out = np.copy(base)
        if m:
            j = {'first': 0, 'last': m - 1}.get(kg['where'])
            if j is None:
                j = int(rs.randint(0, m))
            out[j] = {'nan': np.nan, 'inf': np.inf, '-inf': -np.inf}[kg['val']]
        return out
    if kind == 'r_grid':
        dr = r[0]
        return dr * np.arange(1, m + 1)
    raise ValueError(kind)


def omega_vals(m, rs, special=None):
    x = 0.3 * np.arange(1, m + 1)
    with np.errstate(all='ignore'):
        v = 1.0 + 2.0 * (np.sin(x) / x) ** 2 + 0.05 * rs.standard_normal(m)
    if special == 'nan' and m:
        v[int(rs.randint(0, m))] = np.nan
    elif special == 'neg' and m:
        v[int(rs.randint(0, m))] = -1.5
    elif special == 'huge' and m:
        v[int(rs.randint(0, m))] = 1e300
    return v


def fmt_num(fmt, x):
    if fmt == '%r':
        return repr(float(x))
    return fmt % x


def render(layout, kcol, vals, fmt, header, crlf, trailing_newline=True):
    lines = []
    if header:
        lines.append('# k omega' if layout == '2col' else '# omega')
    for i in range(len(vals)):
        if layout == '2col':
            lines.append(fmt_num(fmt, kcol[i]) + ' ' + fmt_num(fmt, vals[i]))
        else:
            lines.append(fmt_num(fmt, vals[i]))
    nl = '\r\n' if crlf else '\n'
    s = nl.join(lines)
    if lines and trailing_newline:
        s += nl
    return s.encode('ascii')


def pick_cut(intended, cls, rs):
    """crash position biased to the three interesting classes"""
    n = len(intended)
    if n == 0:
        return 0, 'empty'
    text = intended.decode('ascii')
    if cls == 'row_boundary':
        idx = [i + 1 for i, ch in enumerate(text) if ch == '\n']
        if idx:
            return idx[int(rs.randint(0, len(idx)))], cls
    if cls == 'mid_row':
        idx = [i + 1 for i, ch in enumerate(text) if ch == ' ']
        if idx:
            return idx[int(rs.randint(0, len(idx)))], cls
    if cls == 'mid_number':
        idx = [i for i, ch in enumerate(text) if i > 0 and ch not in ' \n\r#' and text[i - 1] not in ' \n\r']
        if idx:
            return idx[int(rs.randint(0, len(idx)))], cls
    if cls == 'last_number':
        # inside the very last number: the row count survives, one value is silently shortened
        j = len(text.rstrip())
        lo = max(text.rfind(' ', 0, j), text.rfind('\n', 0, j)) + 2
        if lo < j:
            return int(rs.randint(lo, j)), cls
    return int(rs.randint(0, n)), 'uniform'


def ratio(kcol, k):
    with np.errstate(all='ignore'):
        return np.abs(np.asarray(kcol) - k) / (ATOL + RTOL * np.abs(k))


class World(BaseWorld):
    pid = 'C12'

    # ------------------------------------------------------------------ generation
    def gen_domain(self, rng):
        N = rng.choice(LENGTHS)
        dr = rng.choice([0.05, 0.1, 0.1, 0.2, 0.25, round(rng.uniform(0.02, 0.5), 3)])
        if rng.random() < 0.3:
            return {'length': N, 'via': 'dk', 'value': rng.choice([0.05, 0.1, 0.25, math.pi / (dr * N)])}
        return {'length': N, 'via': 'dr', 'value': dr}

    def gen_write(self, rng, name=None):
        layout = rng.choice(['1col', '2col', '2col'])
        fault = rng.choices(['clean', 'prefix', 'lost', 'empty', 'missing', 'dup', 'stale_tail'], [9, 4, 1, 0.5, 0.7, 0.7, 1])[0]
        return {'op': 'write', 'name': name or rng.choice(NAMES), 'layout': layout, 'n': rng.choice(NSPEC),
                'kgrid': gen_kgrid(rng) if layout == '2col' else {'kind': 'exact'}, 'fmt': rng.choice(FMTS),
                'header': rng.random() < 0.2, 'crlf': rng.random() < 0.1, 'nl': rng.random() < 0.85,
                'special': rng.choice([None, None, None, None, 'nan', 'neg', 'huge']),
                'fault': fault, 'cut': rng.choice(['row_boundary', 'mid_row', 'mid_number', 'last_number', 'uniform'])}

    def gen(self, seed, tier):
        st = Streams(seed)
        rc, ro = st.get('config'), st.get('ops')
        w = {'write': rc.uniform(1, 4), 'delete': rc.uniform(0, 0.4), 'set_domain': rc.uniform(0.3, 1.5), 'edit_domain': rc.uniform(0, 1.0),
             'ff_calc': rc.uniform(1.5, 4), 'arm_eio': rc.uniform(0, 1.0), 'arm_swap': rc.uniform(0, 1.0), 'fa_new': rc.uniform(0.5, 2.5), 'fa_mutate': rc.uniform(0.3, 2),
             'fa_calc': rc.uniform(1, 3), 'build': rc.uniform(0.5, 2.5)}
        dom_kinds = ('set_domain', 'edit_domain')
        names = sorted(x for x in w if x not in dom_kinds)
        ops = []
        # episodes: a Domain change, then a burst of file / array / build ops on that grid (so that writes, reads, caller
        # mutations and builds actually meet on one grid), 1-4 episodes per run
        for ep in range(ro.randrange(1, 5) if tier != 'thorough' else ro.randrange(1, 8)):
            if ep == 0 or ro.random() < w['set_domain'] / (w['set_domain'] + w['edit_domain'] + 1e-9):
                ops.append({'op': 'set_domain', 'domain': self.gen_domain(ro)})
            else:
                attr = ro.choice(['dr', 'dk', 'length'])
                val = ro.choice(LENGTHS) if attr == 'length' else ro.choice([0.05, 0.1, 0.2, 0.25, 0.3])
                ops.append({'op': 'edit_domain', 'attr': attr, 'value': val})
            last_file, last_fa = None, None      # targets of this episode: later ops mostly refer to what was just written / created

            def pick_file():
                return last_file if last_file is not None and ro.random() < 0.75 else ro.choice(NAMES)

            def pick_fa():
                return last_fa if last_fa is not None and ro.random() < 0.75 else ro.randrange(3)
            for _ in range(ro.randrange(2, 8)):
                k = ro.choices(names, [w[x] for x in names])[0]
                if k == 'write':
                    ops.append(self.gen_write(ro))
                    last_file = ops[-1]['name']
                elif k == 'delete':
                    ops.append({'op': 'delete', 'name': ro.choice(NAMES)})
                elif k == 'ff_calc':
                    ops.append({'op': 'ff_calc', 'name': pick_file(), 'reuse': ro.random() < 0.6})
                elif k == 'arm_swap':
                    wr = self.gen_write(ro, name=pick_file())
                    wr['op'] = 'arm_swap'
                    wr['fault'] = ro.choice(['clean', 'clean', 'clean', 'missing', 'prefix'])
                    ops.append(wr)
                elif k == 'arm_eio':
                    ops.append({'op': 'arm_eio', 'name': pick_file(), 'frac': ro.choice([0.0, 0.1, 0.5, 0.9, 0.99, 1.0, 2.0])})
                elif k == 'fa_new':
                    ops.append({'op': 'fa_new', 'idx': ro.randrange(3), 'container': ro.choice(['list', 'ndarray', 'ndarray', 'tuple', 'view', 'ndarray_f32', 'ndarray_int']),
                                'n': ro.choice(NSPEC), 'with_k': ro.random() < 0.5, 'kgrid': gen_kgrid(ro),
                                # the k array has its own length: usually that of omega, sometimes the grid's while omega's is wrong
                                'kn': ro.choice(['same', 'same', 'same', 'N', 'N', 'N-1']),
                                'kcontainer': ro.choice(['list', 'ndarray', 'ndarray']),
                                # the same omega values as another live table, but its own k information
                                'clone_of': ro.randrange(3) if ro.random() < 0.25 else None})
                    last_fa = ops[-1]['idx']
                    if ops[-1]['clone_of'] is not None and ops[-1]['clone_of'] != ops[-1]['idx'] and ro.random() < 0.7:
                        # two table objects with the same values in one System: the original on the first pairs, the clone on the last
                        ops.append({'op': 'build', 'rank': ro.choice([2, 2, 3]), 'src': 'array', 'name': NAMES[0], 'idx': ops[-1]['clone_of'],
                                    'where': ro.choice(['all', 'ends', 'cross']), 'reuse': False, 'second': True, 'idx2': ops[-1]['idx'], 'pidx': [0]})
                elif k == 'fa_mutate':
                    ops.append({'op': 'fa_mutate', 'idx': pick_fa(), 'which': ro.choice(['omega', 'omega', 'k']),
                                'how': ro.choice(['scale', 'zero', 'reverse', 'one'])})
                elif k == 'fa_calc':
                    ops.append({'op': 'fa_calc', 'idx': pick_fa()})
                elif k == 'build':
                    ops.append({'op': 'build', 'rank': ro.choice([1, 1, 2, 2, 3, 4]), 'src': ro.choice(['file', 'file', 'array']), 'name': pick_file(),
                                'idx': pick_fa(), 'where': ro.choice(['AA', 'all', 'AB', 'cross', 'ends', 'rand', 'rand']), 'reuse': ro.random() < 0.5,
                                'second': ro.random() < 0.4, 'idx2': ro.randrange(3), 'pidx': [ro.randrange(10) for _ in range(ro.randrange(1, 3))]})
        faulty = any(o['op'] in ('arm_eio', 'arm_swap') or (o['op'] == 'write' and o['fault'] != 'clean') for o in ops)
        return {'config': {}, 'ops': ops, 'batch': 'fault_injecting' if faulty else 'fault_free'}

    # ------------------------------------------------------------------ oracle pieces
    def expect_file(self, disk, name, k, ctx):
        """-> ('raise', why) | ('values', ndarray) | ('onecol', ndarray) | ('unjudged', why)"""
        data = disk.files.get(name)
        kind, ncols, rows = simdisk.parse(data)
        N = len(k)
        if kind in ('missing', 'unparsable', 'ragged'):
            return ('raise', kind)
        if ncols == 1:
            return ('onecol', np.array([r[0] for r in rows], dtype=float))
        if ncols == 2:
            m = len(rows)
            if m == 1:
                ctx.probe('single_row_two_col')
            if m != N:
                return ('raise', 'two-column file with %d rows on a %d-point grid' % (m, N))
            kc = np.array([r[0] for r in rows], dtype=float)
            q = ratio(kc, k)
            if not np.all(np.isfinite(q)):
                ctx.probe('kcol_nonfinite')
                return ('raise', 'non-finite k column')
            mx = float(np.max(q))
            if 0.9 < mx < 1.1:
                return ('unjudged', 'k column within 10% of the allclose threshold')
            if mx > 1.0:
                if int(np.sum(q > 1.0)) == 1:
                    ctx.probe('kcol_one_point_off')
                return ('raise', 'k column differs (max ratio to tolerance %.3g)' % mx)
            return ('values', np.array([r[1] for r in rows], dtype=float))
        # more than two columns: the statement speaks of one/two-column files only
        return ('unjudged', '%d columns' % ncols)

    @staticmethod
    def same_bits(a, b):
        a = np.asarray(a)
        b = np.asarray(b)
        return a.shape == b.shape and a.dtype == b.dtype and a.tobytes() == b.tobytes()

    # ------------------------------------------------------------------ execution
    def run(self, case, ctx):
        pp = import_pyprism()
        seed = case['run_seed']
        with simdisk.SimDisk(ctx) as disk:
            if disk.seam is None:
                ctx.probe('read_seam_absent')
            self._run(pp, case, ctx, seed, disk)

    def _run(self, pp, case, ctx, seed, disk):
        dom = None
        ffobj = {}          # name -> persistent FromFile object (re-used across grids and rewrites)
        fa = {}             # idx -> {'obj', 'omega_c', 'k_c', 'omega0', 'k0'}
        handles = []        # (PRISM, expected omega array) built earlier: must not change afterwards
        writes = {}         # name -> count
        for step, op in enumerate(case['ops']):
            ctx.tick()
            ctx.log(step=step, op=op)
            name = op['op']
            if name == 'set_domain':
                d = op['domain']
                dom = lib('Domain()', pp.Domain, length=d['length'], **{d['via']: d['value']})
                ctx.probe('domain_via_' + d['via'])
                continue
            if dom is None:
                continue
            k = np.array(dom.k, dtype=float, copy=True)
            r = np.array(dom.r, dtype=float, copy=True)
            N = len(k)
            if name == 'edit_domain':
                lib('Domain.%s=' % op['attr'], setattr, dom, op['attr'], op['value'])
                ctx.probe('domain_edited_in_place')
            elif name == 'write':
                rs = np_rng(seed, 'write', step)
                m = resolve_n(op['n'], N)
                vals = omega_vals(m, rs, op.get('special'))
                kcol = make_kcol(op['kgrid'], k, r, m, rs)
                intended = render(op['layout'], kcol, vals, op['fmt'], op['header'], op['crlf'], op.get('nl', True))
                cut = None
                if op['fault'] == 'prefix':
                    cut, cls = pick_cut(intended, op['cut'], rs)
                    ctx.probe('torn_' + cls)
                before = disk.files.get(op['name'])
                got = disk.write(op['name'], intended, op['fault'], cut)
                writes[op['name']] = writes.get(op['name'], 0) + 1
                if got != intended:
                    ctx.probe('durable_differs_from_intended')
                if op['fault'] == 'lost' and before is not None:
                    ctx.probe('lost_write_old_content_survives')
                if writes[op['name']] > 1 and op['name'] in ffobj:
                    ctx.probe('file_rewritten_under_live_object')
            elif name == 'delete':
                disk.delete(op['name'])
            elif name == 'arm_swap':
                # content that will replace the file right after its next read-open
                rs = np_rng(seed, 'write', step)
                m = resolve_n(op['n'], N)
                vals = omega_vals(m, rs, op.get('special'))
                kcol = make_kcol(op['kgrid'], k, r, m, rs)
                intended = render(op['layout'], kcol, vals, op['fmt'], op['header'], op['crlf'], op.get('nl', True))
                cut = pick_cut(intended, op['cut'], rs)[0] if op['fault'] == 'prefix' else None
                if disk.seam is not None and disk.files.get(op['name']) is not None:
                    disk.swap[op['name']] = disk.durable(op['name'], intended, op['fault'], cut)
            elif name == 'arm_eio':
                data = disk.files.get(op['name'])
                if data is not None and disk.seam is not None:
                    disk.arm_eio(op['name'], int(op['frac'] * len(data)))
            elif name == 'ff_calc':
                self.op_ff_calc(pp, op, step, disk, ffobj, k, ctx)
            elif name == 'fa_new':
                self.op_fa_new(pp, op, step, seed, fa, k, r, ctx)
            elif name == 'fa_mutate':
                self.op_fa_mutate(op, fa, ctx)
            elif name == 'fa_calc':
                self.op_fa_calc(pp, op, step, fa, k, ctx)
            elif name == 'build':
                self.op_build(pp, op, step, disk, ffobj, fa, dom, k, handles, ctx)
            # every PRISM object built earlier still holds the omega it was built with
            for (P, want, tag) in handles:
                if not self.same_bits(np.asarray(P.omega.data), want):
                    raise Violation('earlier_prism_omega_changed', name, {'built_at': tag}, step)
            ctx.state(name, N <= 3, len(disk.files), len(fa))
        ctx.info['reads'] = disk.reads

    # ---- FromFile.calculate
    def op_ff_calc(self, pp, op, step, disk, ffobj, k, ctx):
        nm = op['name']
        path = disk.path(nm)
        if op['reuse']:
            if nm not in ffobj:
                ffobj[nm] = lib('FromFile()', pp.omega.FromFile, path)
            else:
                ctx.probe('fromfile_object_reused')
            obj = ffobj[nm]
        else:
            obj = lib('FromFile()', pp.omega.FromFile, path)
        exp = self.expect_file(disk, nm, k, ctx)
        fired0, swaps0 = disk.eio_fired, disk.swaps_fired
        try:
            with warnings.catch_warnings():
                warnings.simplefilter('ignore')
                got = obj.calculate(np.copy(k))
            exc = None
        except Exception as e:
            got, exc = None, e
        allowed = [exp]
        if disk.swaps_fired > swaps0:
            # the file was replaced between two opens inside this one evaluation: a reader that opens once saw the old content, one
            # that opens twice saw both -- the outcome must be right for the old content or for the new one, never a mixture
            allowed.append(self.expect_file(disk, nm, k, ctx))
            ctx.probe('replaced_during_evaluation')
        if disk.eio_fired > fired0:
            # the read failed mid-way: the only acceptable outcome is an exception
            allowed = [('raise', 'EIO mid-read')]
            ctx.probe('eio_mid_read')
        disk.eio.pop(nm, None)
        disk.swap.pop(nm, None)
        ctx.log(expect=[e[0] for e in allowed], raised=type(exc).__name__ if exc else None)
        first = None
        for e in allowed:
            v = self.judge_file(e, got, exc, k, step, ctx)
            if v is None:
                return
            first = first or v
        raise first

    def judge_file(self, exp, got, exc, k, step, ctx):
        """None if the outcome (got | exc) is acceptable for expectation exp, else the Violation"""
        if exp[0] == 'unjudged':
            ctx.probe('unjudged_' + ('threshold' if 'threshold' in exp[1] else 'columns'))
            return None
        if exp[0] == 'raise':
            if exc is None:
                return Violation('mismatched_file_accepted', 'FromFile.calculate', {'why': exp[1], 'returned_len': int(np.size(got)),
                                                                                    'grid': len(k)}, step)
            ctx.probe('file_rejected')
            ctx.nontrivial = True
            return None
        if exp[0] == 'onecol':
            vals = exp[1]
            if len(vals) == len(k):
                if exc is not None:
                    return Violation('matching_file_rejected', 'FromFile.calculate', '%s: %s' % (type(exc).__name__, str(exc)[:120]), step)
                if not self.same_bits(np.asarray(got, dtype=float), vals):
                    return Violation('file_values_not_verbatim', 'FromFile.calculate', {'layout': '1col', 'n': len(vals)}, step)
                ctx.probe('onecol_verbatim')
            else:
                # may return here; must be rejected when built/evaluated (op build)
                ctx.probe('onecol_wronglen_at_calculate')
                if exc is None and np.size(got) == len(k):
                    return Violation('mismatched_file_accepted', 'FromFile.calculate', {'why': 'one-column file of %d values returned %d values' % (
                        len(vals), len(k))}, step)
            return None
        # matching two-column file
        if exc is not None:
            return Violation('matching_file_rejected', 'FromFile.calculate', '%s: %s' % (type(exc).__name__, str(exc)[:120]), step)
        if not self.same_bits(np.ascontiguousarray(np.asarray(got, dtype=float)), exp[1]):
            return Violation('file_values_not_verbatim', 'FromFile.calculate', {'layout': '2col', 'n': len(exp[1])}, step)
        ctx.probe('twocol_verbatim')
        return None

    # ---- FromArray
    def op_fa_new(self, pp, op, step, seed, fa, k, r, ctx):
        rs = np_rng(seed, 'fa', step)
        N = len(k)
        m = resolve_n(op['n'], N)
        vals = omega_vals(m, rs)
        src_e = fa.get(op.get('clone_of')) if op.get('clone_of') is not None else None
        if src_e is not None and len(src_e['omega0']) > 0:
            vals = np.array(src_e['omega0'], dtype=float, copy=True)
            m = len(vals)
            ctx.probe('fa_same_values_as_another_table')
        base = None
        if op['container'] == 'ndarray_int':
            vals = np.round(3.0 * vals)                       # a table of whole numbers, held in an integer array
        elif op['container'] == 'ndarray_f32':
            vals = vals.astype(np.float32).astype(float)      # single-precision values (exactly representable in double)
        if op['container'] == 'list':
            oc = [float(x) for x in vals]
        elif op['container'] == 'tuple':
            oc = tuple(float(x) for x in vals)
        elif op['container'] == 'view':
            base = np.zeros(2 * m + 2)
            base[1:2 * m + 1:2] = vals
            oc = base[1:2 * m + 1:2]            # strided float64 view into a caller-owned buffer
        elif op['container'] == 'ndarray_int':
            oc = np.array(vals, dtype=np.int64)
        elif op['container'] == 'ndarray_f32':
            oc = np.array(vals, dtype=np.float32)
        else:
            oc = np.array(vals, dtype=float)
        kc = None
        if op['with_k']:
            mk = m if op.get('kn', 'same') == 'same' else resolve_n(op['kn'], N)
            if mk != m:
                ctx.probe('fa_k_and_omega_lengths_differ')
            kcol = make_kcol(op['kgrid'], k, r, mk, rs)
            kc = [float(x) for x in kcol] if op['kcontainer'] == 'list' else np.array(kcol, dtype=float)
        try:
            with warnings.catch_warnings():
                warnings.simplefilter('ignore')
                obj = pp.omega.FromArray(omega=oc, k=kc) if kc is not None else pp.omega.FromArray(omega=oc)
        except Exception as e:
            # construction may reject nothing the statement speaks about; an exception here is unexpected
            raise Violation('unexpected_exception', 'FromArray()', '%s: %s' % (type(e).__name__, str(e)[:120]), step)
        fa[op['idx']] = {'obj': obj, 'omega_c': oc, 'k_c': kc, 'base': base, 'omega0': np.array(vals, dtype=float),
                         'k0': None if kc is None else np.array(kc, dtype=float), 'mutated': False}
        ctx.probe('fa_' + op['container'])

    def op_fa_mutate(self, op, fa, ctx):
        e = fa.get(op['idx'])
        if e is None:
            return
        tgt = e['omega_c'] if op['which'] == 'omega' else e['k_c']
        if tgt is None or isinstance(tgt, tuple) or len(tgt) == 0:
            return
        how = op['how']
        if isinstance(tgt, list):
            if how == 'scale':
                for i in range(len(tgt)):
                    tgt[i] = tgt[i] * 3.0
            elif how == 'zero':
                for i in range(len(tgt)):
                    tgt[i] = 0.0
            elif how == 'reverse':
                tgt.reverse()
            else:
                tgt[0] = -7.0
        else:
            if how == 'scale':
                tgt *= 3                   # (an integer factor: the caller's array may be an integer array)
            elif how == 'zero':
                tgt[...] = 0.0
            elif how == 'reverse':
                tgt[...] = tgt[::-1].copy()
            else:
                tgt[0] = -7
        e['mutated'] = True
        ctx.probe('caller_array_mutated_' + op['which'])

    def expect_array(self, e, k, ctx):
        N = len(k)
        if len(e['omega0']) != N:
            return ('raise', 'array of %d values on a %d-point grid' % (len(e['omega0']), N))
        if e['k0'] is not None:
            if len(e['k0']) != N:
                return ('raise', 'k array of %d values' % len(e['k0']))
            q = ratio(e['k0'], k)
            mx = float(np.max(q)) if np.all(np.isfinite(q)) else np.inf
            if 0.9 < mx < 1.1:
                return ('unjudged', 'threshold')
            if mx > 1.0:
                if int(np.sum(q > 1.0)) == 1:
                    ctx.probe('karray_one_point_off')
                return ('raise', 'k array differs (ratio %.3g)' % mx)
        return ('values', e['omega0'])

    def op_fa_calc(self, pp, op, step, fa, k, ctx):
        e = fa.get(op['idx'])
        if e is None:
            return
        exp = self.expect_array(e, k, ctx)
        try:
            got = e['obj'].calculate(np.copy(k))
            exc = None
        except Exception as ex:
            got, exc = None, ex
        if exp[0] == 'unjudged':
            ctx.probe('unjudged_threshold')
            return
        if exp[0] == 'raise':
            if exc is None:
                raise Violation('mismatched_array_accepted', 'FromArray.calculate', {'why': exp[1], 'caller_mutated': e['mutated']}, step)
            ctx.probe('array_rejected')
            ctx.nontrivial = True
            return
        if exc is not None:
            raise Violation('matching_array_rejected', 'FromArray.calculate', {'exc': '%s: %s' % (type(exc).__name__, str(exc)[:120]),
                                                                              'caller_mutated': e['mutated']}, step)
        if not self.same_bits(np.ascontiguousarray(np.asarray(got, dtype=float)), exp[1]):
            raise Violation('caller_array_change_leaked' if e['mutated'] else 'array_values_not_verbatim', 'FromArray.calculate',
                            {'caller_mutated': e['mutated']}, step)
        ctx.probe('array_verbatim')
        if e['mutated']:
            ctx.probe('array_verbatim_after_caller_mutation')
            ctx.nontrivial = True

    # ---- build a System around the tabulated omega, create the PRISM object and evaluate it once
    def op_build(self, pp, op, step, disk, ffobj, fa, dom, k, handles, ctx):
        rank = op['rank']
        types = ['A', 'B', 'C', 'D'][:rank]
        N = len(k)
        if N < 4:
            return
        if op['src'] == 'file':
            nm = op['name']
            if op['reuse'] and nm in ffobj:
                src = ffobj[nm]
                ctx.probe('build_with_reused_fromfile')
            else:
                src = lib('FromFile()', pp.omega.FromFile, disk.path(nm))
            exp = self.expect_file(disk, nm, k, ctx)
            if exp[0] == 'onecol':
                exp = ('values', exp[1]) if len(exp[1]) == N else ('raise', 'one-column file of %d values on a %d-point grid' % (len(exp[1]), N))
                if exp[0] == 'raise':
                    ctx.probe('onecol_wronglen_deferred_reject')
        else:
            e = fa.get(op['idx'])
            if e is None:
                return
            src = e['obj']
            exp = self.expect_array(e, k, ctx)
        # a second, different table object for the pair that is evaluated last (e.g. same values, other k information)
        src2 = exp2 = None
        e2 = fa.get(op.get('idx2', -1))
        if rank >= 2 and op.get('second') and e2 is not None and e2['obj'] is not src:
            src2, exp2 = e2['obj'], self.expect_array(e2, k, ctx)
            ctx.probe('build_with_two_table_objects')
        if exp[0] == 'unjudged' or (exp2 is not None and exp2[0] == 'unjudged'):
            ctx.probe('unjudged_threshold')
            disk.eio.clear()
            return
        rho = {'A': 0.1, 'B': 0.05, 'C': 0.02, 'D': 0.04}
        allpairs = [(a, b) for i, a in enumerate(types) for b in types[i:]]
        with warnings.catch_warnings():
            warnings.simplefilter('ignore')
            s = pp.System(types, kT=1.0)
            s.domain = dom
            for t in types:
                s.density[t] = rho[t]
                s.diameter[t] = 1.0
            s.potential[types, types] = pp.potential.HardSphere()
            s.closure[types, types] = pp.closure.PercusYevick()
            for (a, b) in allpairs:
                s.omega[a, b] = pp.omega.SingleSite() if a == b else pp.omega.NoIntra()
            w = op['where']
            if rank == 1 or w == 'AA':
                tab = [('A', 'A')]
            elif w == 'all':
                tab = list(allpairs)
            elif w == 'AB':
                tab = [('A', 'B')]
            elif w == 'cross':
                tab = [(a, b) for (a, b) in allpairs if a != b]
            elif w == 'rand':
                tab = sorted({allpairs[i % len(allpairs)] for i in op.get('pidx', [0])}, key=allpairs.index)
            else:
                tab = [allpairs[0], allpairs[-1]]
            srcs = {}
            for n_, (a, b) in enumerate(tab):
                use2 = src2 is not None and n_ == len(tab) - 1 and len(tab) > 1
                s.omega[a, b] = src2 if use2 else src
                srcs[(a, b)] = exp2 if use2 else exp
            bad = [v for v in srcs.values() if v[0] == 'raise']
            if bad:
                exp = bad[0]
        fired0, swaps0 = disk.eio_fired, disk.swaps_fired
        P = None
        exc = None
        stage = 'createPRISM'
        try:
            with warnings.catch_warnings():
                warnings.simplefilter('ignore')
                with np.errstate(all='ignore'):
                    P = s.createPRISM()
                    stage = 'cost'
                    y = P.cost(np.zeros(rank * rank * N))
                    stage = 'done'
        except Exception as ex:
            exc = ex
        disk.eio.clear()
        disk.swap.clear()
        if disk.swaps_fired > swaps0:
            # the file changed while the table was being evaluated (each pair re-reads it): which pairs saw which content is the
            # reader's business; not judged here (FromFile.calculate under the same fault is, in op ff_calc)
            ctx.probe('replaced_during_build')
            return
        if disk.eio_fired > fired0:
            exp = ('raise', 'EIO mid-read')
            ctx.probe('eio_mid_read')
        ctx.log(expect=exp[0], stage=stage, raised=type(exc).__name__ if exc else None)
        if exp[0] == 'raise':
            if stage == 'done':
                raise Violation('correlation_function_from_mismatched_data', 'createPRISM+cost', {'why': exp[1], 'rank': rank, 'pairs': tab}, step)
            ctx.probe('build_rejected_at_' + stage)
            ctx.nontrivial = True
            return
        if P is None:
            raise Violation('matching_data_rejected', 'createPRISM', '%s: %s' % (type(exc).__name__, str(exc)[:120]), step)
        # omega of the new object = site density x values, exactly the on-disk / construction-time values
        om = np.asarray(P.omega.data, dtype=float)
        if om.shape != (N, rank, rank):
            raise Violation('prism_omega_shape', 'createPRISM', {'shape': list(om.shape)}, step)
        idx = {t: i for i, t in enumerate(types)}
        for (a, b) in allpairs:
            site_ab = rho[a] if a == b else rho[a] + rho[b]
            if (a, b) in srcs:
                want = srcs[(a, b)][1] * site_ab
            else:
                want = (np.ones(N) if a == b else np.zeros(N)) * site_ab        # SingleSite / NoIntra
            for (i, j) in ((idx[a], idx[b]), (idx[b], idx[a])):
                got = om[:, i, j]
                both_nan = np.isnan(got) & np.isnan(want)
                with np.errstate(all='ignore'):
                    ok = both_nan | (np.abs(got - want) <= 4 * np.finfo(float).eps * np.abs(want)) | (got == want)
                if not np.all(ok):
                    raise Violation('prism_omega_not_site_density_times_table', 'createPRISM', {'pair': [a, b], 'index': int(np.argmin(ok))}, step)
        handles.append((P, np.array(om, copy=True), step))
        if len(handles) > 1:
            ctx.probe('several_prism_objects_alive')
        ctx.probe('build_ok')

    # ------------------------------------------------------------------ shrinking
    def simplify(self, case):
        out = []
        for i, o in enumerate(case['ops']):
            if o['op'] == 'write':
                if o['fault'] != 'clean':
                    c = copy.deepcopy(case)
                    c['ops'][i]['fault'] = 'clean'
                    out.append(c)
                for key, val in (('header', False), ('crlf', False), ('special', None), ('fmt', '%.18e'), ('nl', True)):
                    if o.get(key) != val:
                        c = copy.deepcopy(case)
                        c['ops'][i][key] = val
                        out.append(c)
            if o['op'] == 'set_domain' and o['domain']['length'] > 4:
                for L in (4, 8, 16):
                    if L < o['domain']['length']:
                        c = copy.deepcopy(case)
                        c['ops'][i]['domain']['length'] = L
                        out.append(c)
                        break
            if o['op'] == 'build' and o['rank'] != 1:
                c = copy.deepcopy(case)
                c['ops'][i]['rank'] = 1
                out.append(c)
        return out

    def signature(self, case, violation):
        sig = '%s@%s' % (violation['kind'], violation['site'])
        d = violation.get('detail')
        if violation['kind'] == 'mismatched_file_accepted' and isinstance(d, dict) and 'two-column file with 1 rows' in str(d.get('why')):
            sig += '/single-row-two-column'
        return sig

    def expected_probes(self, tier):
        return ['torn_mid_number', 'torn_mid_row', 'torn_row_boundary', 'torn_last_number', 'lost_write_old_content_survives',
                'file_rewritten_under_live_object', 'kcol_one_point_off', 'karray_one_point_off', 'onecol_wronglen_deferred_reject',
                'eio_mid_read', 'replaced_during_evaluation', 'single_row_two_col', 'fromfile_object_reused', 'build_with_reused_fromfile', 'onecol_verbatim',
                'twocol_verbatim', 'array_verbatim_after_caller_mutation', 'caller_array_mutated_k', 'domain_edited_in_place',
                'domain_via_dk', 'build_ok', 'build_rejected_at_createPRISM', 'build_rejected_at_cost', 'several_prism_objects_alive',
                'fa_view', 'fa_list', 'fa_ndarray', 'fa_ndarray_f32', 'fa_ndarray_int', 'file_rejected', 'array_rejected', 'fa_k_and_omega_lengths_differ', 'kcol_nonfinite', 'build_with_two_table_objects', 'fa_same_values_as_another_table']

    def rule(self):
        return ('Each run = one seed -> 1-4 episodes (a Domain change followed by 2-7 ops on that grid) over {set/replace Domain (length 2..100, dr or dk), edit Domain in place, write file (1|2 columns; '
                'n in {N, N+-1, N-2, N/2, 2N, 0, 1, 2}; k column exact | shifted | rescaled | one point off by f x allclose tolerance | other domain '
                '| permuted | containing NaN/inf | r grid; 7 number formats; header, CRLF, no trailing newline, NaN/negative/huge values) under a durability fault {clean, torn '
                'prefix (row boundary | mid row | mid number | inside last number | uniform), lost, empty, missing, duplicated, stale tail}, '
                'delete, arm EIO after a fraction of the characters, arm a replacement of the file right after its next open (atomic rename: the open handle keeps the old content), FromFile.calculate (fresh or re-used object), FromArray from '
                'list|tuple|ndarray|strided view with/without k, in-place mutation of the caller\'s omega/k arrays, FromArray.calculate, build '
                'rank-1..4 System (tabulated omega on one pair, the cross pairs, the first and last pair or all pairs; optionally a second table object on the last pair) -> createPRISM -> cost}. Oracle: independent tokenizer of the durable bytes + allclose rule -> values bit-for-bit, '
                'or must-raise; one-column wrong length may pass calculate but must raise by createPRISM/first cost; cases within 10% of the '
                'allclose threshold unjudged. Non-trivial: at least one mismatch was rejected or one verbatim read followed a caller mutation. '
                'Distinct: run digests.')

    def abstract_measure(self):
        return '(op kind, tiny grid?, number of files on disk, number of live FromArray objects)'

    def components(self):
        return {'real': ['pyPRISM.omega.FromFile', 'pyPRISM.omega.FromArray', 'pyPRISM.core.PairTable.apply/exportToMatrixArray',
                         'pyPRISM.core.PRISM.__init__/cost', 'pyPRISM.core.Domain', 'numpy.loadtxt', 'real files in a per-run scratch directory'],
                'stub': ['the calling script', 'the writer + crash model deciding which bytes are durable',
                         'numpy.lib._datasource.open wrapper injecting EIO after n characters on read-mode opens of scratch files']}

    def assumptions(self):
        return ['ASCII numeric text as np.savetxt writes it (plus optional # header, CRLF); other token kinds are not generated',
                'perturbations within 10% of the allclose threshold are unjudged', 'files with more than two columns are unjudged',
                'EIO injected at numpy.lib._datasource.open (feature-detected; if absent the fault kind is reported as not injected)',
                'mutating the array *returned* by calculate is outside the alphabet (the statement speaks of the caller\'s input array)',
                'CPython without -O (refusals are asserts)']
