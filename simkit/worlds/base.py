"""Base class for worlds."""
import warnings

from ..core import Violation, Streams


class BaseWorld(object):
    pid = None

    def gen(self, seed, tier):
        raise NotImplementedError

    def run(self, case, ctx):
        raise NotImplementedError

    def simplify(self, case):
        return []

    def signature(self, case, violation):
        return '%s@%s' % (violation['kind'], violation['site'])

    def expected_probes(self, tier):
        return []

    def rule(self):
        return ''

    def abstract_measure(self):
        return ''

    def components(self):
        return {'real': [], 'stub': []}

    def assumptions(self):
        return []


def lib(site, fn, *a, **kw):
    """Call into the library where the property implies success: any exception is a
    violation of kind 'unexpected_exception' (never a harness error)."""
    try:
        with warnings.catch_warnings():
            warnings.simplefilter('ignore')
            return fn(*a, **kw)
    except Violation:
        raise
    except Exception as e:
        raise Violation('unexpected_exception', site, '%s: %s' % (type(e).__name__, str(e)[:200]))


def must_raise(site, exc_types, fn, *a, **kw):
    """Call fn expecting one of exc_types; returns the exception.  No exception or a
    different type is a violation."""
    try:
        with warnings.catch_warnings():
            warnings.simplefilter('ignore')
            r = fn(*a, **kw)
    except exc_types as e:
        return e
    except Violation:
        raise
    except Exception as e:
        raise Violation('wrong_exception_type', site, '%s: %s' % (type(e).__name__, str(e)[:200]))
    raise Violation('missing_exception', site, 'returned %r' % (type(r).__name__,))


# The statements of C14/C15 speak of "single keys or lists of keys".  Tuples and one-shot iterators were tried as key containers
# (a seeded change broke Density for generator keys only) but the *unchanged* PairTable already mishandles a one-shot iterator as
# second key (listify is called once per first key), so such inputs are outside what the properties quantify over: a check that
# generated them alarmed on the unchanged tree.  Only lists are generated; wrap_keys is kept for replaying hand-written cases.
KEY_CONTAINERS = ['list']


def wrap_keys(k, kc):
    """a key that names several types may be any iterable Table.listify accepts: list, tuple, or a
    one-shot iterator (generator / iter()); single keys are passed as they are"""
    if not isinstance(k, list) or not kc or kc == 'list':
        return k
    if kc == 'tuple':
        return tuple(k)
    if kc == 'gen':
        return (x for x in list(k))
    if kc == 'iter':
        return iter(list(k))
    raise ValueError(kc)


def fresh_key(k):
    """an object equal to k but (where CPython allows) not identical to it: tables are keyed maps, so a type name built
    at run time ('bead-%d' % i, an id read from a file) must address the same entry as the literal used at construction.
    Multi-character strings and ints outside the small-int cache come out as distinct objects."""
    if isinstance(k, list):
        return [fresh_key(x) for x in k]
    if isinstance(k, tuple):
        return tuple(fresh_key(x) for x in k)
    if isinstance(k, str):
        return ''.join([c for c in k])
    if isinstance(k, bool):
        return k
    if isinstance(k, int):
        return int(str(k))
    return k
