"""Base class for worlds."""
import warnings

from ..core import Violation, Streams


class BaseWorld(object):
    pid = None

    def gen(self, seed, tier):
        raise NotImplementedError

    def run(self, case, ctx):
        raise NotImplementedError

    def simplify(self, case):
        return []

    def signature(self, case, violation):
        return '%s@%s' % (violation['kind'], violation['site'])

    def expected_probes(self, tier):
        return []

    def rule(self):
        return ''

    def abstract_measure(self):
        return ''

    def components(self):
        return {'real': [], 'stub': []}

    def assumptions(self):
        return []


def lib(site, fn, *a, **kw):
    """Call into the library where the property implies success: any exception is a
    violation of kind 'unexpected_exception' (never a harness error)."""
    try:
        with warnings.catch_warnings():
            warnings.simplefilter('ignore')
            return fn(*a, **kw)
    except Violation:
        raise
    except Exception as e:
        raise Violation('unexpected_exception', site, '%s: %s' % (type(e).__name__, str(e)[:200]))


def must_raise(site, exc_types, fn, *a, **kw):
    """Call fn expecting one of exc_types; returns the exception.  No exception or a
    different type is a violation."""
    try:
        with warnings.catch_warnings():
            warnings.simplefilter('ignore')
            r = fn(*a, **kw)
    except exc_types as e:
        return e
    except Violation:
        raise
    except Exception as e:
        raise Violation('wrong_exception_type', site, '%s: %s' % (type(e).__name__, str(e)[:200]))
    raise Violation('missing_exception', site, 'returned %r' % (type(r).__name__,))
