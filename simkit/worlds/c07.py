"""C07 -- Real/Fourier transforms are exact mutual inverses on every reachable Domain.

SIM-H: seeded histories over Domain construction (dr or dk) and dr/dk/length setter calls with
round-trip, linearity, fresh-Domain equivalence and explicit sine-matrix oracles after every op.
"""
import math

import numpy as np

from ..core import Streams, Violation, import_pyprism, np_rng
from .base import BaseWorld, lib, must_raise
from ..numerics import dst2_matrix, dst3_matrix

LENGTHS = [1, 2, 3, 4, 5, 7, 8, 9, 15, 16, 17, 31, 32, 33, 50, 63, 64, 65, 97, 100, 101, 127, 128, 129, 200, 255, 256, 257, 300]
BIG = [512, 1000, 1024, 2048, 4096]
DECIMAL = [0.05, 0.075, 0.1, 0.3, 0.01, 0.2, 0.25, 0.5, 0.02, 0.15]
RT_TOL = 1e-10
EQ_TOL = 1e-12


def gen_len(rng):
    r = rng.random()
    if r < 0.55:
        return rng.choice(LENGTHS)
    if r < 0.9:
        return rng.randrange(1, 301)
    return rng.choice(BIG)


def gen_spacing(rng):
    if rng.random() < 0.06:
        return rng.choice([1, 2, 1])       # an integer spacing (the grid is then an integer array until a float spacing is assigned)
    if rng.random() < 0.45:
        return rng.choice(DECIMAL)
    return math.exp(rng.uniform(math.log(1e-3), math.log(2.0)))


def relerr(a, b):
    a = np.asarray(a, dtype=float)
    b = np.asarray(b, dtype=float)
    if a.shape != b.shape:
        return float('inf')
    if a.size == 0:
        return 0.0
    return float(np.max(np.abs(a - b)) / max(np.max(np.abs(b)), 1e-300))


class World(BaseWorld):
    pid = 'C07'

    def gen(self, seed, tier):
        st = Streams(seed)
        rc, ro = st.get('config'), st.get('ops')
        n = rc.randrange(1, 10) if tier != 'thorough' else rc.randrange(1, 25)
        small = rc.random() < 0.8
        w = {'set_dr': rc.uniform(0.3, 2), 'set_dk': rc.uniform(0.3, 2), 'set_length': rc.uniform(0.3, 2),
             'construct': rc.uniform(0, 0.5), 'roundtrip': rc.uniform(0.5, 2), 'linearity': rc.uniform(0.2, 1),
             'ma': rc.uniform(0.3, 1.5), 'matrix': rc.uniform(0.2, 1)}
        names = sorted(w)

        def glen():
            L = gen_len(ro)
            if small and L > 300:
                L = ro.choice(LENGTHS)
            return L
        ops = [{'op': 'construct', 'length': glen(), 'via': ro.choice(['dr', 'dr', 'dk']), 'value': gen_spacing(ro)}]
        for _ in range(n):
            k = ro.choices(names, [w[x] for x in names])[0]
            if k == 'construct':
                ops.append({'op': 'construct', 'length': glen(), 'via': ro.choice(['dr', 'dk']), 'value': gen_spacing(ro)})
            elif k in ('set_dr', 'set_dk'):
                if ro.random() < 0.2:
                    # a fine sweep step / a spacing that is tiny in absolute terms: the new value is *close* to the old one
                    ops.append({'op': 'nudge', 'attr': k[4:], 'rel': ro.choice([1e-6, 3e-6, -5e-7, 1e-9, 2e-5]), 'tiny': ro.random() < 0.3})
                else:
                    ops.append({'op': k, 'value': gen_spacing(ro)})
            elif k == 'set_length':
                ops.append({'op': k, 'value': glen()})
            elif k == 'roundtrip' and ro.random() < 0.25:
                ops.append({'op': k, 'kind': ro.choice(['noise', 'smooth', 'spike', 'const']), 'dtype': ro.choice(['int64', 'bool', 'float32'])})
            elif k == 'roundtrip':
                ops.append({'op': k, 'kind': ro.choice(['noise', 'smooth', 'spike', 'const'])})
            elif k == 'linearity':
                ops.append({'op': k, 'a': round(ro.uniform(-3, 3), 3), 'b': round(ro.uniform(-3, 3), 3), 'dir': ro.choice(['f', 'r'])})
            elif k == 'ma':
                ops.append({'op': k, 'rank': ro.randrange(1, 5), 'space': ro.choice(['Real', 'Fourier']),
                            'seq': [ro.choice('fr') for _ in range(ro.randrange(1, 4))],
                            'layout': ro.choice(['C', 'C', 'C', 'F', 'T', 'block']),
                            'typenames': ro.choice(['letters', 'letters', 'int_perm', 'int_rev', 'words'])})
                # the user may re-bind M.data between two transforms (plain assignment, as PRISM.cost does with GammaIn.data): token 'b'.
                # Drawn from its own stream so that the rest of the generated history is what it was before this token existed.
                rb = st.get('ma_rebind')
                if rb.random() < 0.4:
                    sq = ops[-1]['seq']
                    at = rb.randrange(1, len(sq) + 1)
                    sq.insert(at, 'b')
                    if at == len(sq) - 1:
                        sq.append(rb.choice('fr'))
            elif k == 'matrix':
                ops.append({'op': k})
            if k == 'ma' and ro.random() < 0.25:
                ops.append({'op': 'ma_mismatch', 'rank': ro.randrange(1, 4), 'space': ro.choice(['Real', 'Fourier']), 'dn': ro.choice([-1, 1, 2, -3])})
        return {'config': {}, 'ops': ops}

    def run(self, case, ctx):
        pp = import_pyprism()
        seed = case['run_seed']
        d = None
        setters = []   # kinds of setter calls since construction

        def arr(step, tag, N, kind='noise'):
            rs = np_rng(seed, 'arr', step, tag)
            if kind == 'noise':
                return rs.uniform(-1, 1, size=N)
            if kind == 'smooth':
                x = np.arange(1, N + 1) / float(N)
                return np.exp(-((x * 6) ** 2)) * rs.uniform(0.5, 2) + 0.1
            if kind == 'spike':
                a = np.zeros(N)
                a[rs.randint(0, N)] = 1.0
                return a
            return np.ones(N) * rs.uniform(0.5, 2)

        def verify(step, opname):
            N = lib('length', lambda: d.length)
            dr = float(lib('dr', lambda: d.dr))
            dk = float(lib('dk', lambda: d.dk))
            r = np.asarray(lib('r', lambda: d.r), dtype=float)
            k = np.asarray(lib('k', lambda: d.k), dtype=float)
            if len(r) != N or len(k) != N:
                raise Violation('grid_point_count', opname, {'length': N, 'len_r': len(r), 'len_k': len(k), 'dr': dr}, step)
            idx = np.arange(1, N + 1, dtype=float)
            if relerr(r, idx * dr) > EQ_TOL:
                raise Violation('r_grid_not_equally_spaced', opname, {'err': relerr(r, idx * dr), 'length': N, 'dr': dr}, step)
            if relerr(k, idx * dk) > EQ_TOL:
                raise Violation('k_grid_not_equally_spaced', opname, {'err': relerr(k, idx * dk), 'length': N, 'dk': dk}, step)
            if abs(dr * dk * N - math.pi) > EQ_TOL * math.pi:
                raise Violation('conjugate_spacing_stale', opname, {'dr': dr, 'dk': dk, 'length': N, 'dr*dk*N': dr * dk * N,
                                                                    'setters': setters[-3:]}, step)
            # indistinguishable from a fresh Domain(length, dr)
            fresh = lib('Domain(fresh)', pp.Domain, length=N, dr=dr)
            for nm in ('r', 'k'):
                e = relerr(getattr(d, nm), getattr(fresh, nm))
                if e > EQ_TOL:
                    raise Violation('differs_from_fresh_domain', opname, {'attr': nm, 'err': e, 'setters': setters[-3:]}, step)
            if abs(fresh.dk - dk) > EQ_TOL * dk:
                raise Violation('differs_from_fresh_domain', opname, {'attr': 'dk', 'got': dk, 'fresh': fresh.dk, 'setters': setters[-3:]}, step)
            if hasattr(d, 'long_r') and hasattr(fresh, 'long_r'):
                if relerr(np.asarray(d.long_r).reshape(-1), np.asarray(fresh.long_r).reshape(-1)) > EQ_TOL:
                    raise Violation('differs_from_fresh_domain', opname, {'attr': 'long_r'}, step)
            f = arr(step, 'fresh', N)
            for nm in ('to_fourier', 'to_real'):
                a1 = lib(nm, getattr(d, nm), np.copy(f))
                a2 = lib(nm + '(fresh)', getattr(fresh, nm), np.copy(f))
                if np.shape(a1) != (N,):
                    raise Violation('transform_output_shape', opname, {'fn': nm, 'shape': list(np.shape(a1)), 'length': N}, step)
                e = relerr(a1, a2)
                if e > 1e-11:
                    raise Violation('transform_differs_from_fresh_domain', opname, {'fn': nm, 'err': e, 'setters': setters[-3:]}, step)
            return N, dr, dk

        for step, op in enumerate(case['ops']):
            name = op['op']
            ctx.tick()
            ctx.log(step=step, op=op)
            if name == 'construct':
                kw = {op['via']: op['value']}
                d = lib('Domain()', pp.Domain, length=op['length'], **kw)
                setters = []
                ctx.probe('dk_ctor' if op['via'] == 'dk' else 'dr_ctor')
                got = float(d.dr if op['via'] == 'dr' else d.dk)
                if got != float(op['value']) or d.length != op['length']:
                    raise Violation('constructor_argument_not_taken', 'construct', {'via': op['via'], 'got': got, 'want': op['value']}, step)
                if op['length'] & (op['length'] - 1):
                    ctx.probe('nonpow2')
                if op['value'] in DECIMAL:
                    ctx.probe('decimal_spacing')
            elif d is None:
                ctx.log(skipped=True)
                continue
            elif name == 'set_dr':
                lib('dr=', setattr, d, 'dr', op['value'])
                if float(d.dr) != float(op['value']):
                    raise Violation('setter_did_not_take_effect', 'set_dr', {'got': d.dr, 'want': op['value']}, step)
                setters.append('dr')
            elif name == 'set_dk':
                lib('dk=', setattr, d, 'dk', op['value'])
                if float(d.dk) != float(op['value']):
                    raise Violation('setter_did_not_take_effect', 'set_dk', {'got': d.dk, 'want': op['value']}, step)
                setters.append('dk')
            elif name == 'nudge':
                attr = op['attr']
                if op.get('tiny'):
                    # first bring the spacing down to ~1e-10 (legal: units are the user's), then change it by a factor 2
                    lib(attr + '=', setattr, d, attr, 2e-10)
                    new = 4e-10
                else:
                    new = float(getattr(d, attr)) * (1.0 + op['rel'])
                lib(attr + '=', setattr, d, attr, new)
                if float(getattr(d, attr)) != new:
                    raise Violation('setter_did_not_take_effect', 'set_' + attr, {'got': float(getattr(d, attr)), 'want': new}, step)
                setters.append(attr)
                ctx.probe('spacing_nudged')
            elif name == 'ma_mismatch':
                # a MatrixArray whose length does not fit this Domain: the transform must fail *and leave array and flag alone*
                rk = op['rank']
                Nm = max(1, N + op['dn']) if N + op['dn'] != N else N + 1
                rs = np_rng(seed, 'mam', step)
                data = rs.uniform(-1, 1, size=(Nm, rk, rk))
                data = (data + np.transpose(data, (0, 2, 1))) / 2.0
                M = lib('MatrixArray()', pp.MatrixArray, length=Nm, rank=rk, data=np.copy(data), space=getattr(pp.Space, op['space']), types=list('ABCD'[:rk]))
                fn = d.MatrixArray_to_fourier if op['space'] == 'Real' else d.MatrixArray_to_real
                try:
                    fn(M)
                    failed = False
                except Exception:
                    failed = True
                if failed:
                    if np.asarray(M.data).tobytes() != data.tobytes() or M.space != getattr(pp.Space, op['space']):
                        raise Violation('failed_transform_modified_array_or_flag', 'ma_mismatch', {
                            'flag_now': str(M.space), 'data_changed': np.asarray(M.data).tobytes() != data.tobytes()}, step)
                    ctx.probe('failed_transform_left_array_alone')
                else:
                    ctx.probe('mismatched_length_transform_did_not_fail')
            elif name == 'set_length':
                dr0 = float(d.dr)
                lib('length=', setattr, d, 'length', op['value'])
                if d.length != op['value']:
                    raise Violation('setter_did_not_take_effect', 'set_length', {'got': d.length, 'want': op['value']}, step)
                if 'dk' in setters or case['ops'][0].get('via') == 'dk':
                    ctx.probe('length_set_after_dk')
                if 'dr' in setters:
                    ctx.probe('length_set_after_dr')
                setters.append('length')
                if op['value'] & (op['value'] - 1):
                    ctx.probe('nonpow2')
            N, dr, dk = verify(step, name)
            if len(set(setters)) >= 2:
                ctx.probe('two_setter_kinds')
            if name == 'roundtrip':
                f = arr(step, 'rt', N, op['kind'])
                dt = op.get('dtype', 'float64')
                if dt == 'int64':
                    f = np.round(4 * f).astype(np.int64)         # a real array of integers (step functions, counts)
                elif dt == 'bool':
                    f = f > 0
                elif dt == 'float32':
                    f = f.astype(np.float32)
                if dt != 'float64':
                    ctx.probe('roundtrip_dtype_' + dt)
                    if not np.any(f):
                        f = np.ones(N, dtype=f.dtype)
                    # the transform of an integer / single-precision array is the transform of the same numbers
                    Fd = lib('to_fourier', d.to_fourier, np.copy(f))
                    Fr = lib('to_fourier', d.to_fourier, np.asarray(f, dtype=float))
                    if relerr(np.asarray(Fd, dtype=float), Fr) > RT_TOL:
                        raise Violation('transform_depends_on_input_dtype', 'roundtrip', {'dtype': dt, 'err': relerr(np.asarray(Fd, dtype=float), Fr)}, step)
                    f = np.asarray(f, dtype=float) if dt != 'float32' else f
                F = lib('to_fourier', d.to_fourier, np.copy(f))
                f2 = lib('to_real', d.to_real, np.copy(F))
                e = relerr(f2, f)
                if e > RT_TOL:
                    raise Violation('roundtrip_real_fourier_real', 'roundtrip', {'err': e, 'length': N, 'dr': dr, 'setters': setters[-3:]}, step)
                G = lib('to_real', d.to_real, np.copy(f))
                g2 = lib('to_fourier', d.to_fourier, np.copy(G))
                e = relerr(g2, f)
                if e > RT_TOL:
                    raise Violation('roundtrip_fourier_real_fourier', 'roundtrip', {'err': e, 'length': N, 'dr': dr, 'setters': setters[-3:]}, step)
                ctx.raw(F)
                if len(set(setters)) >= 2:
                    ctx.nontrivial = True
                ctx.probe('roundtrip')
            elif name == 'linearity':
                f, g = arr(step, 'lf', N), arr(step, 'lg', N)
                T = d.to_fourier if op['dir'] == 'f' else d.to_real
                lhs = lib('T(af+bg)', T, op['a'] * f + op['b'] * g)
                rhs = op['a'] * lib('T(f)', T, np.copy(f)) + op['b'] * lib('T(g)', T, np.copy(g))
                sc = max(np.max(np.abs(lib('T(f)', T, np.copy(f)))), np.max(np.abs(lib('T(g)', T, np.copy(g)))), 1e-300) * (abs(op['a']) + abs(op['b']) + 1e-300)
                if float(np.max(np.abs(lhs - rhs))) > 1e-11 * sc:
                    raise Violation('transform_not_linear', 'linearity', {'err': float(np.max(np.abs(lhs - rhs))), 'scale': float(sc)}, step)
                if len(set(setters)) >= 2:
                    ctx.nontrivial = True
                ctx.probe('linearity')
            elif name == 'matrix':
                if N > 256:
                    ctx.log(skipped='N>256')
                else:
                    # explicit sine sums from the DST-II / DST-III definitions and the harness' own (length, dr) model
                    rr = dr * np.arange(1, N + 1)
                    kk = (math.pi / (dr * N)) * np.arange(1, N + 1)
                    dkk = math.pi / (dr * N)
                    f = arr(step, 'mx', N)
                    Fm = dst2_matrix(N).dot(2.0 * math.pi * rr * dr * f) / kk
                    Rm = dst3_matrix(N).dot(kk * dkk / (4.0 * math.pi ** 2) * f) / rr
                    F = lib('to_fourier', d.to_fourier, np.copy(f))
                    R = lib('to_real', d.to_real, np.copy(f))
                    if relerr(F, Fm) > 1e-10:
                        raise Violation('to_fourier_differs_from_sine_sum', 'matrix', {'err': relerr(F, Fm), 'length': N, 'dr': dr}, step)
                    if relerr(R, Rm) > 1e-10:
                        raise Violation('to_real_differs_from_sine_sum', 'matrix', {'err': relerr(R, Rm), 'length': N, 'dr': dr}, step)
                    if len(set(setters)) >= 2:
                        ctx.nontrivial = True
                    ctx.probe('sine_matrix_oracle')
            elif name == 'ma':
                rk = op['rank']
                rs = np_rng(seed, 'ma', step)
                data = rs.uniform(-1, 1, size=(N, rk, rk))
                data = (data + np.transpose(data, (0, 2, 1))) / 2.0
                tn = op.get('typenames', 'letters')
                if tn == 'int_perm':
                    types = [(i + 1) % rk for i in range(rk)]          # integer names that are a permutation of the positions
                    ctx.probe('ma_integer_type_names')
                elif tn == 'int_rev':
                    types = list(range(rk))[::-1]
                    ctx.probe('ma_integer_type_names')
                elif tn == 'words':
                    types = ['site-%d' % i for i in range(rk)]
                else:
                    types = list('ABCD'[:rk])
                # the user's data array may have any memory layout: C order, Fortran order, a (rank, rank, length) stack viewed
                # transposed, a sub-block of a larger array -- all are legal ndarray inputs with the same values
                lay = op.get('layout', 'C')
                if lay == 'F':
                    udata = np.asfortranarray(data)
                elif lay == 'T':
                    udata = np.ascontiguousarray(np.transpose(data, (2, 1, 0))).T
                elif lay == 'block':
                    big = np.zeros((N, rk + 1, rk + 2))
                    big[:, :rk, :rk] = data
                    udata = big[:, :rk, :rk]
                else:
                    udata = np.copy(data)
                if lay != 'C':
                    ctx.probe('ma_data_layout_' + lay)
                M = lib('MatrixArray()', pp.MatrixArray, length=N, rank=rk, data=udata, space=getattr(pp.Space, op['space']), types=types)
                space = op['space']
                cur = np.copy(data)
                for t in op['seq']:
                    if t == 'b':
                        fresh = rs.uniform(-1, 1, size=(N, rk, rk))
                        fresh = (fresh + np.transpose(fresh, (0, 2, 1))) / 2.0
                        M.data = np.copy(fresh)
                        cur = np.copy(fresh)
                        ctx.probe('ma_data_rebound_between_transforms')
                        continue
                    target = 'Fourier' if t == 'f' else 'Real'
                    fn = d.MatrixArray_to_fourier if t == 'f' else d.MatrixArray_to_real
                    one = d.to_fourier if t == 'f' else d.to_real
                    if space == target:
                        must_raise('MatrixArray_to_%s(already there)' % target.lower(), (ValueError,), fn, M)
                        if np.asarray(M.data).tobytes() != cur.tobytes() or M.space != getattr(pp.Space, space):
                            raise Violation('refused_transform_modified_array', 'ma', {'target': target}, step)
                        ctx.probe('refused_transform')
                    else:
                        lib('MatrixArray_to_%s' % target.lower(), fn, M)
                        want = np.empty_like(cur)
                        for i in range(rk):
                            for j in range(rk):
                                want[:, i, j] = lib('1d', one, np.copy(cur[:, i, j]))
                        got = np.asarray(M.data)
                        if got.shape != want.shape or relerr(got, want) > 1e-13:
                            raise Violation('matrixarray_transform_differs_from_1d', 'ma', {'target': target, 'err': relerr(got, want)}, step)
                        if not np.array_equal(got, np.transpose(got, (0, 2, 1))):
                            raise Violation('matrixarray_transform_broke_symmetry', 'ma', {'target': target}, step)
                        if M.space != getattr(pp.Space, target):
                            raise Violation('space_flag_not_flipped', 'ma', {'target': target, 'flag': str(M.space)}, step)
                        space = target
                        cur = np.copy(got)
                        ctx.probe('ma_to_' + target.lower())
                if len(set(setters)) >= 2:
                    ctx.nontrivial = True
            ctx.state(min(N, 3) if N < 3 else ('pow2' if not (N & (N - 1)) else 'npow2'), tuple(setters[-3:]), name)

    def simplify(self, case):
        out = []
        for i, o in enumerate(case['ops']):
            if o['op'] in ('construct', 'set_length'):
                key = 'length' if o['op'] == 'construct' else 'value'
                for L in (4, 8, 16, 100):
                    if o[key] > L:
                        c = dict(case)
                        c['ops'] = [dict(x) for x in case['ops']]
                        c['ops'][i][key] = L
                        out.append(c)
        return out

    def expected_probes(self, tier):
        return ['dk_ctor', 'dr_ctor', 'length_set_after_dk', 'length_set_after_dr', 'nonpow2', 'decimal_spacing', 'refused_transform',
                'two_setter_kinds', 'roundtrip', 'linearity', 'sine_matrix_oracle', 'ma_to_fourier', 'ma_to_real', 'ma_integer_type_names',
                'ma_data_layout_F', 'ma_data_layout_T', 'ma_data_layout_block', 'spacing_nudged', 'failed_transform_left_array_alone', 'roundtrip_dtype_int64', 'roundtrip_dtype_bool', 'roundtrip_dtype_float32', 'ma_data_rebound_between_transforms']

    def rule(self):
        return ('Each run = one seed -> construct(length in 1..300 incl. primes and 2^k+-1, or 512..4096; via dr or dk; spacing log-uniform '
                '1e-3..2 or a "decimal" value users type) + 1-9 ops over {set dr, set dk, set length, re-construct, roundtrip(noise|smooth|spike|const), '
                'MatrixArray transforms on user data of any memory layout (C, Fortran, transposed stack, block slice) and type names (letters, words, integer permutations), '
                'linearity, explicit sine-matrix oracle (N<=256), MatrixArray transform sequences rank 1-4 incl. repeats and re-binding of .data between transforms}. After every op: '
                'len(r)=len(k)=length, r_i=(i+1)dr, k_j=(j+1)dk, setter took effect, dr*dk*length=pi, r/k/dk/long_r and both transforms equal '
                'those of a fresh Domain(length, dr). Non-trivial: a transform oracle ran after >= 2 setter calls of different kinds. '
                'Distinct: run digests.')

    def abstract_measure(self):
        return '(length class, last three setter kinds, op kind)'

    def components(self):
        return {'real': ['pyPRISM.core.Domain', 'pyPRISM.core.MatrixArray', 'scipy.fftpack.dst'], 'stub': ['the calling script'],
                'fault_kinds': 'none: SIM-H (history search only)'}

    def assumptions(self):
        return ['lengths 1..4096, spacings 1e-3..2', 'round trip tolerance 1e-10 relative to max|f| (conditioning of r*f/r is O(N))',
                'equality with a fresh Domain judged at 1e-12 relative']
