"""C03 -- hard-core exclusion: g(r) vanishes inside the contact distance.

SIM: invariant monitored at *every callback* the (simulated or real) root finder makes, plus
adversarial trial vectors handed to cost() by the simulated user, plus the post-solve bound.
Shares the engine of c01.py.
"""
import warnings

import numpy as np

from ..core import Violation, np_rng
from .. import sysgen, oracles
from . import c01

GAMMA_MAX = 1e6
UNDERFLOW = -745.0          # exp(x) == 0.0 in IEEE double for x < -745.13
HNC_FINDING = 'unflagged_hnc_core_lost_when_gamma_exceeds_high_value_over_kT'
EPS = np.finfo(float).eps


class World(c01.World):
    pid = 'C03'
    need_hard = True
    do_c01 = False
    do_c03 = True

    def install_closure_probes(self, pp, spec, P, r_user, masks, ctx):
        types = spec['types']
        seen = set()
        for (i, j), mask in masks.items():
            a, b = types[i], types[j]
            cl = P.sys.closure[a, b]
            if id(cl) in seen or getattr(cl, '_simkit_probe', False):
                continue
            seen.add(id(cl))
            sig = sysgen.core_radius(spec, a, b)
            orig = cl.calculate
            pspec = spec['pairs'][sysgen.pkey(a, b)]
            if pspec['closure']['hc']:
                ctx.probe('flagged_' + pspec['closure']['cls'])
            else:
                ctx.probe('unflagged_%s_core' % pspec['closure']['cls'])
            if np.any(np.abs(r_user - sig) < 1e-6):
                ctx.probe('contact_point_on_grid')

            hnc_soft_core = (not pspec['closure']['hc']) and pspec['closure']['cls'] == 'HyperNettedChain'

            def probe(r, gamma, _orig=orig, _sig=sig, _a=a, _b=b, _cl=cl, _hnc=hnc_soft_core):
                g = np.array(gamma, dtype=float, copy=True)
                c = _orig(r, gamma)
                ctx.tick()
                m = np.asarray(r) <= _sig
                if np.any(m):
                    if not np.all(np.isfinite(g)) or float(np.max(np.abs(g))) > GAMMA_MAX:
                        ctx.probe('gamma_out_of_range')
                    else:
                        cc = np.asarray(c, dtype=float)
                        with np.errstate(all='ignore'):
                            dev = np.abs(cc[m] + g[m] + 1.0)
                        tol = 4 * EPS * np.maximum(1.0, np.abs(g[m]))
                        bad = ~(dev <= tol)
                        if np.any(bad) and _hnc:
                            # un-flagged HNC gets its core from exp(gamma - u) underflowing with u = high_value/kT: that cannot
                            # happen once a trial gamma comes within ~745 of high_value/kT (seen with real scipy krylov on a
                            # diverging iteration).  Reported under its own class (open known finding), everything else as usual.
                            u = np.asarray(_cl.potential, dtype=float)[m]
                            lost = bad & (g[m] - u > UNDERFLOW)
                            if np.any(lost):
                                k = int(np.argmax(lost))
                                raise Violation(HNC_FINDING, 'closure.calculate', {
                                    'pair': [_a, _b], 'r': float(np.asarray(r)[m][k]), 'gamma': float(g[m][k]), 'u_over_kT': float(u[k])})
                        if np.any(bad):
                            k = int(np.argmax(np.where(np.isfinite(dev), dev - tol, np.inf)))
                            raise Violation('closure_core_value_not_minus_one_minus_gamma', 'closure.calculate',
                                            {'pair': [_a, _b], 'r': float(np.asarray(r)[m][k]), 'c_plus_gamma': float(cc[m][k] + g[m][k]),
                                             'gamma': float(g[m][k])})
                        ctx.probe('closure_evals_checked')
                return c
            cl.calculate = probe
            cl._simkit_probe = True

    def after_solve_attempt(self, pp, P):
        # the user looks at g(r) after every solve attempt, converged or not (public API; result not judged here)
        try:
            with warnings.catch_warnings():
                warnings.simplefilter('ignore')
                pp.calculate.pair_correlation(P)
        except Exception:
            pass

    def op_post(self, pp, spec, state, op, step, grid, r_user, ctx):
        """other calculators run on the solved object; afterwards g(r) as the API hands it out must still vanish in every core"""
        lo = state.get('last_ok')
        if not lo:
            return
        P, res = lo
        n = len(spec['types'])
        for fn in op['fns']:
            if n < 2 and fn in ('chi', 'spinodal_condition', 'solvation_potential'):
                continue
            try:
                with warnings.catch_warnings():
                    warnings.simplefilter('ignore')
                    with np.errstate(all='ignore'):
                        getattr(pp.calculate, fn)(P)
                ctx.probe('post_' + fn)
            except Exception:
                ctx.probe('post_raised')
        with warnings.catch_warnings():
            warnings.simplefilter('ignore')
            g = pp.calculate.pair_correlation(P)
        gd = np.asarray(g.data, dtype=float)
        F = np.asarray(res.fun, dtype=float).reshape(grid.N, n, n)
        cmax = float(np.max(np.abs(oracles.as_real(pp, P.directCorr, grid, 'post'))))
        for (i, j), mask in oracles.core_masks(spec, r_user).items():
            if not np.any(mask):
                continue
            for (a, b) in ((i, j), (j, i)):
                Fab = np.maximum(np.abs(F[:, a, b]), np.abs(F[:, b, a]))
                bound = Fab / r_user + oracles.TOL * (1.0 + cmax) / r_user
                bad = mask & ~(np.abs(gd[:, a, b]) <= bound)
                if np.any(bad):
                    m = int(np.argmax(np.where(bad, np.abs(gd[:, a, b]) - bound, -np.inf)))
                    raise Violation('g_nonzero_inside_core_after_postprocessing', 'calculate', {
                        'after': op['fns'], 'pair': [spec['types'][a], spec['types'][b]], 'r': float(r_user[m]), 'g': float(gd[m, a, b]),
                        'bound': float(bound[m])}, step)
        ctx.probe('core_checked_after_postprocessing')

    def check_g_via_api(self, pp, spec, P, res, grid, r_user, site):
        """g(r) as the public API hands it out (calculate.pair_correlation) is the stored h(r) + 1, also inside the cores"""
        with warnings.catch_warnings():
            warnings.simplefilter('ignore')
            g = pp.calculate.pair_correlation(P)
        gd = np.asarray(g.data, dtype=float)
        h = oracles.as_real(pp, P.totalCorr, grid, site)
        if gd.shape != h.shape or oracles.space_name(pp, g) != 'Real':
            raise Violation('pair_correlation_shape_or_space', site, {'shape': list(gd.shape), 'space': oracles.space_name(pp, g)})
        sc = max(1.0, float(np.max(np.abs(h))))
        d = float(np.max(np.abs(gd - (h + 1.0))))
        if not d <= oracles.TOL * sc:
            raise Violation('pair_correlation_is_not_stored_h_plus_one', site, {'max_abs_diff': d, 'scale': sc})

    def monitor_eval(self, pp, spec, P, x, grid, r_user, masks, ctx, mon):
        """after each callback: F^-1(directCorr) + gamma_in = -1 on every core mask (side effects of cost)"""
        mon['n'] += 1
        if P is None:
            return
        n = len(spec['types'])
        g = np.asarray(x, dtype=float).reshape(grid.N, n, n) / r_user.reshape(-1, 1, 1)
        if not np.all(np.isfinite(g)) or float(np.max(np.abs(g))) > GAMMA_MAX:
            ctx.probe('gamma_out_of_range')
            return
        try:
            c = oracles.as_real(pp, P.directCorr, grid, 'cost')
        except Violation:
            raise
        if not np.all(np.isfinite(c)):
            ctx.probe('nonfinite_directCorr')
            return
        for (i, j), mask in masks.items():
            if not np.any(mask):
                continue
            for (p, q) in ((i, j), (j, i)):
                # the trial vector need not be symmetric in the type labels: the closure of a pair was handed
                # one of its two entries (or their mean) -- accept whichever makes the identity hold
                cand = [np.abs(c[:, p, q] + gg + 1.0) for gg in (g[:, p, q], g[:, q, p], 0.5 * (g[:, p, q] + g[:, q, p]))]
                dev = np.minimum(np.minimum(cand[0], cand[1]), cand[2])
                tol = oracles.TOL * max(1.0, float(np.max(np.abs(c[:, p, q]))), float(np.max(np.abs(g[:, p, q]))), float(np.max(np.abs(g[:, q, p]))))
                bad = mask & ~(dev <= tol)
                pspec = spec['pairs'][sysgen.pkey(spec['types'][i], spec['types'][j])]
                if np.any(bad) and (not pspec['closure']['hc']) and pspec['closure']['cls'] == 'HyperNettedChain':
                    u = np.asarray(P.sys.closure[spec['types'][i], spec['types'][j]].potential, dtype=float)
                    gmax = np.maximum(g[:, p, q], g[:, q, p])
                    lost = bad & (gmax - u > UNDERFLOW)
                    if np.any(lost):
                        k = int(np.argmax(lost))
                        raise Violation(HNC_FINDING, 'cost', {'pair': [spec['types'][p], spec['types'][q]], 'r': float(r_user[k]),
                                                              'gamma': float(gmax[k]), 'u_over_kT': float(u[k])})
                if np.any(bad):
                    k = int(np.argmax(np.where(bad, dev, -1)))
                    raise Violation('c_plus_gamma_not_minus_one_in_core', 'cost', {
                        'pair': [spec['types'][p], spec['types'][q]], 'r': float(r_user[k]), 'dev': float(dev[k]), 'tol': tol})
        ctx.probe('callbacks_checked')

    def op_cost(self, pp, spec, system, state, op, step, seed, grid, r_user, masks, ctx, mon):
        n = len(spec['types'])
        N = grid.N
        with warnings.catch_warnings():
            warnings.simplefilter('ignore')
            P = state['P']
            if P is None:
                P = system.createPRISM()
                state['P'] = P
                self.install_closure_probes(pp, spec, P, r_user, masks, ctx)
            rs = np_rng(seed, 'adv', step)
            amp = float(op['amp'])
            if op['kind'] == 'big':
                g = amp * rs.standard_normal((N, n, n))
            elif op['kind'] == 'sign':
                g = amp * np.where(np.arange(N) % 2 == 0, 1.0, -1.0).reshape(-1, 1, 1) * np.ones((N, n, n))
            elif op['kind'] == 'spike':
                g = np.zeros((N, n, n))
                for (i, j), m in masks.items():
                    idx = int(np.sum(m))          # first point outside / last inside the core
                    for k in (idx - 1, idx):
                        if 0 <= k < N:
                            g[k, i, j] = g[k, j, i] = amp * (1 if rs.rand() < 0.5 else -1)
            else:
                g = 1e-3 * rs.standard_normal((N, n, n))
            g = (g + np.transpose(g, (0, 2, 1))) / 2.0
            x = (g * r_user.reshape(-1, 1, 1)).reshape(-1)
            try:
                with np.errstate(all='ignore'):
                    P.cost(np.copy(x))
            except Violation:
                raise
            except Exception as e:
                ctx.probe('cost_raised')
                ctx.log(cost_exception=type(e).__name__)
                return
            ctx.probe('adversarial_gamma')
            self.monitor_eval(pp, spec, P, x, grid, r_user, masks, ctx, mon)

    def expected_probes(self, tier):
        return ['contact_point_on_grid', 'unflagged_PercusYevick_core', 'unflagged_HyperNettedChain_core', 'flagged_MeanSphericalApproximation',
                'flagged_MartynovSarkisov', 'flagged_PercusYevick', 'flagged_HyperNettedChain', 'adversarial_gamma', 'mixed_hard_soft',
                'closure_evals_checked', 'callbacks_checked', 'last_eval_differs_from_root', 'converged', 'core_checked_after_postprocessing', 'post_second_virial', 'post_structure_factor', 'same_object_solved_again']

    def rule(self):
        return ('Generator of C01 restricted to systems with >= 1 hard-core pair (HS/HCLJ/Exponential closed with un-flagged PY/HNC, or any '
                'closure with the hard-core flag), kT <= 4. Monitors: (a) per-instance probe around each hard-core pair closure: at every '
                'evaluation c+gamma=-1 for r<=sigma to 4 ulp*max(1,|gamma|) (|gamma|<=1e6); (b) after every solver callback and every adversarial '
                'cost(x) call by the user (|gamma| up to 1e3, spikes at contact, sign patterns): F^-1(directCorr)+gamma_in=-1 on the mask; '
                '(c) after a successful solve |g|<=|reported F|/r + tol, and g(r) read through calculate.pair_correlation (after every solve '
                'attempt, also on a PRISM object that is solved a second time) equals the stored h+1. Core radius = closure contact distance '
                'if flagged, else the potential\'s own sigma. Non-trivial: >= 20 callbacks monitored and the solve converged. '
                'Distinct: run digests.')

    def assumptions(self):
        return c01.World.assumptions(self) + [
            'core membership r_i <= sigma decided with the Domain\'s own floats (contact classification itself is C10, not claimed)',
            'trial vectors with |gamma| > 1e6 or non-finite are counted (gamma_out_of_range), not judged: -1-gamma+gamma is inf-inf there',
            'monitors (a)/(b) are active for PRISM objects the user holds (createPRISM + solve); System.solve runs get monitor (c) only']
