"""Independent numerics used by oracles: explicit DST-II / DST-III matrices (scipy's unnormalised
definitions), and the radial transform pair written from (length, dr) alone."""
import functools
import math

import numpy as np


@functools.lru_cache(maxsize=64)
def dst2_matrix(N):
    # y[k] = 2 * sum_n x[n] sin(pi (k+1)(2n+1) / (2N))
    k = np.arange(N).reshape(-1, 1)
    n = np.arange(N).reshape(1, -1)
    return 2.0 * np.sin(math.pi * (k + 1) * (2 * n + 1) / (2.0 * N))


@functools.lru_cache(maxsize=64)
def dst3_matrix(N):
    # y[k] = (-1)^k x[N-1] + 2 * sum_{n<N-1} x[n] sin(pi (2k+1)(n+1) / (2N))
    k = np.arange(N).reshape(-1, 1)
    n = np.arange(N).reshape(1, -1)
    M = 2.0 * np.sin(math.pi * (2 * k + 1) * (n + 1) / (2.0 * N))
    M[:, N - 1] = (-1.0) ** np.arange(N)
    return M


class RefGrid(object):
    """Grids and transform matrices from (length, dr) alone (independent of pyPRISM.Domain)."""

    def __init__(self, N, dr):
        self.N = int(N)
        self.dr = float(dr)
        self.dk = math.pi / (self.dr * self.N)
        self.r = self.dr * np.arange(1, self.N + 1)
        self.k = self.dk * np.arange(1, self.N + 1)
        self._F = None
        self._R = None

    @property
    def F(self):
        if self._F is None:
            self._F = (dst2_matrix(self.N) * (2.0 * math.pi * self.r * self.dr).reshape(1, -1)) / self.k.reshape(-1, 1)
        return self._F

    @property
    def R(self):
        if self._R is None:
            self._R = (dst3_matrix(self.N) * (self.k * self.dk / (4.0 * math.pi ** 2)).reshape(1, -1)) / self.r.reshape(-1, 1)
        return self._R

    def to_fourier(self, f):
        return self.F.dot(f)

    def to_real(self, f):
        return self.R.dot(f)
