"""simkit.sysgen -- swarm-style generator of fully specified pyPRISM systems as plain
*parameter records* (JSON), builders that turn a record into real pyPRISM objects through
the public API, and reference quantities computed from the record alone.
"""
import math

import numpy as np

from .numerics import RefGrid

TYPE_NAMES = {1: [['A'], ['polymer']], 2: [['A', 'B'], ['polymer', 'solvent'], ['B', 'A']],
              3: [['A', 'B', 'C'], ['p', 'q', 's'], ['C', 'A', 'B']], 4: [['A', 'B', 'C', 'D'], ['w', 'x', 'y', 'z']]}

HARD_POTS = ('HardSphere', 'HardCoreLennardJones', 'Exponential')


def pkey(a, b):
    return '%s|%s' % (a, b)


def pairs(types):
    return [(a, b) for i, a in enumerate(types) for j, b in enumerate(types) if i <= j]


def gen_domain(rng, small=False):
    r = rng.random()
    if small:
        N = rng.choice([16, 24, 32, 48, 64, 64, 96, 128])
    elif r < 0.5:
        N = rng.choice([32, 64, 128, 128, 256])
    elif r < 0.85:
        N = rng.choice([16, 24, 48, 50, 63, 65, 96, 100, 127, 129, 150, 200, 255])
    else:
        N = rng.randrange(16, 257)
    dr = rng.choice([0.05, 0.1, 0.1, 0.1, 0.2, 0.25, 0.125, round(rng.uniform(0.05, 0.3), 3)])
    if N * dr < 4.0:
        dr = rng.choice([0.2, 0.25, 0.3])
    if rng.random() < 0.25:
        dom = {'length': N, 'via': 'dk', 'value': math.pi / (dr * N)}
    elif rng.random() < 0.04:
        dom = {'length': N, 'via': 'dr', 'value': 1}        # an *integer* spacing: the r grid is an integer array
    else:
        dom = {'length': N, 'via': 'dr', 'value': dr}
    if rng.random() < 0.25:
        # the user did not construct the Domain in its final form: it was built with another length and resized in place
        # (length setter last), or built with another spacing that was then assigned
        if rng.random() < 0.6:
            N0 = rng.choice([n for n in (16, 32, 64, 128, 240, 256, 100) if n != N])
            v0 = dom['value'] if dom['via'] == 'dr' else dom['value'] * N / N0
            dom['history'] = {'start': {'length': N0, 'via': dom['via'], 'value': v0}, 'steps': [['length', N]]}
        else:
            other = rng.choice([0.05, 0.1, 0.2, 0.3])
            dom['history'] = {'start': {'length': N, 'via': rng.choice(['dr', 'dk']), 'value': other}, 'steps': [[dom['via'], dom['value']]]}
    return dom


def domain_dr(dom):
    if dom['via'] == 'dr':
        return float(dom['value'])
    return math.pi / (float(dom['value']) * dom['length'])


def gen_potential(rng, hard_only=False, soft_ok=True):
    kinds = ['HardSphere', 'HardSphere', 'HardCoreLennardJones', 'Exponential']
    if soft_ok and not hard_only:
        kinds += ['LennardJones', 'WeeksChandlerAndersen']
    k = rng.choice(kinds)
    if k == 'HardSphere':
        return {'cls': k, 'kw': {}}
    if k == 'HardCoreLennardJones':
        return {'cls': k, 'kw': {'epsilon': round(rng.uniform(0.05, 0.8), 3)}}
    if k == 'Exponential':
        return {'cls': k, 'kw': {'epsilon': round(rng.choice([-1, 1]) * rng.uniform(0.05, 0.8), 3),
                                 'alpha': round(rng.uniform(0.25, 1.0), 3)}}
    if k == 'LennardJones':
        cut = rng.random() < 0.6
        return {'cls': k, 'kw': {'epsilon': round(rng.uniform(0.05, 0.6), 3), 'rcut': 2.5 if cut else None,
                                 'shift': bool(cut and rng.random() < 0.5)}}
    return {'cls': k, 'kw': {'epsilon': round(rng.uniform(0.1, 1.0), 3)}}


def gen_closure(rng, pot, hc_bias=0.3):
    """Closure spec compatible with the potential (MSA/MS only with the hard-core flag:
    documented not to work on divergent potentials without it)."""
    r = rng.random()
    if r < 0.4:
        cls = 'PercusYevick'
    elif r < 0.7:
        cls = 'HyperNettedChain'
    elif r < 0.85:
        cls = 'MeanSphericalApproximation'
    else:
        cls = 'MartynovSarkisov'
    if cls in ('MeanSphericalApproximation', 'MartynovSarkisov'):
        hc = True
    else:
        hc = rng.random() < hc_bias
    alias = rng.random() < 0.2
    out = {'cls': cls, 'hc': hc, 'alias': alias}
    if rng.random() < 0.15:
        out['flagkind'] = rng.choice(['np_bool', 'int'])
    return out


ALIAS = {'PercusYevick': 'PY', 'HyperNettedChain': 'HNC', 'MeanSphericalApproximation': 'MSA', 'MartynovSarkisov': 'MS'}


def gen_omega_self(rng):
    r = rng.random()
    if r < 0.45:
        return {'cls': 'SingleSite', 'kw': {}}
    if r < 0.65:
        return {'cls': 'Gaussian', 'kw': {'sigma': round(rng.uniform(0.8, 1.3), 3), 'length': rng.choice([2, 5, 10, 20, 50, 100])}}
    if r < 0.8:
        return {'cls': 'FreelyJointedChain', 'kw': {'length': rng.choice([2, 4, 10, 30, 100]), 'l': round(rng.uniform(0.8, 1.3), 3)}}
    if r < 0.88:
        return {'cls': 'GaussianRing', 'kw': {'sigma': round(rng.uniform(0.8, 1.3), 3), 'length': rng.choice([3, 6, 12, 24])}}
    if r < 0.91:
        # only the near-freely-jointed branch of DiscreteKoyama can be constructed with the pinned numpy (lp ~ 4/3 for l = sigma = 1)
        return {'cls': 'DiscreteKoyama', 'kw': {'sigma': 1.0, 'l': 1.0, 'length': rng.choice([4, 8, 12]), 'lp': rng.choice([1.334, 1.3334])}}
    return {'cls': 'FromArray', 'kw': {'form': 'debye', 'l': round(rng.uniform(0.8, 1.2), 3), 'n': rng.choice([2, 3, 4]), 'with_k': rng.random() < 0.5}}


def gen_omega_cross(rng):
    r = rng.random()
    if r < 0.6:
        return {'cls': 'NoIntra', 'kw': {}}
    if r < 0.75:
        return {'cls': 'InterMolecular', 'kw': {}}
    return {'cls': 'FromArray', 'kw': {'form': 'bond', 'l': round(rng.uniform(0.8, 1.2), 3), 'amp': round(rng.uniform(0.2, 0.5), 3),
                                       'with_k': rng.random() < 0.5}}


def gen_spec(rng, rank=None, small=False, need_hard=False, eta_max=0.45, convergent=True):
    if rank is None:
        rank = rng.choice([1, 1, 2, 2, 2, 3])
    types = list(rng.choice(TYPE_NAMES[rank]))
    dom = gen_domain(rng, small=small)
    dr = domain_dr(dom)
    ongrid = rng.random() < 0.7
    diam = {}
    for t in types:
        if ongrid:
            m = max(2, int(round(rng.choice([1.0, 1.0, 1.0, 0.8, 1.2, 1.5]) / dr)))
            diam[t] = round(m * dr, 10)
        else:
            diam[t] = round(rng.uniform(0.8, 1.5), 3)
    eta = math.exp(rng.uniform(math.log(0.005), math.log(eta_max)))
    if convergent and rng.random() < 0.7:
        eta = min(eta, 0.25)
    w = [rng.uniform(0.2, 1.0) for _ in types]
    dens = {}
    for t, wi in zip(types, w):
        eta_t = eta * wi / sum(w)
        dens[t] = eta_t * 6.0 / (math.pi * diam[t] ** 3)
    kT = round(math.exp(rng.uniform(math.log(0.5), math.log(4.0))), 3) if rng.random() < 0.7 else 1.0
    ps = {}
    homogeneous = rng.random() < 0.35   # same closure/potential family everywhere
    base_pot = gen_potential(rng)
    base_clo = gen_closure(rng, base_pot)
    for (a, b) in pairs(types):
        pot = dict(base_pot) if homogeneous else gen_potential(rng)
        clo = dict(base_clo) if homogeneous else gen_closure(rng, pot)
        om = gen_omega_self(rng) if a == b else gen_omega_cross(rng)
        explicit_sigma = rng.random() < 0.15
        ps[pkey(a, b)] = {'potential': pot, 'closure': clo, 'omega': om, 'explicit_sigma': explicit_sigma}
        # a potential may carry its own length scale, different from the contact distance (d_a+d_b)/2 the closure uses
        # (e.g. WCA(sigma=0.9) on unit-diameter sites).  Only with a flagged closure: there the core is the closure's.
        if clo['hc'] and rng.random() < 0.2:
            ps[pkey(a, b)]['potential_sigma_factor'] = rng.choice([0.8, 0.9, 0.9, 1.1])
    spec = {'types': types, 'kT': kT, 'domain': dom, 'density': dens, 'diameter': diam, 'pairs': ps,
            # how the simulated user fills the tables: one list x list statement (the documented idiom) then per-pair overrides, or pair by pair
            'bulk': {'potential': rng.random() < 0.4, 'closure': rng.random() < 0.4}}
    if need_hard and not any(is_hard_core(spec, a, b) for (a, b) in pairs(types)):
        a = types[0]
        ps[pkey(a, a)]['potential'] = {'cls': 'HardSphere', 'kw': {}}
        ps[pkey(a, a)]['closure'] = {'cls': 'PercusYevick', 'hc': False, 'alias': False}
        ps[pkey(a, a)].pop('potential_sigma_factor', None)
    return spec


def is_hard_core(spec, a, b):
    p = spec['pairs'][pkey(a, b)]
    if p['closure']['hc']:
        return True
    return p['potential']['cls'] in HARD_POTS and p['closure']['cls'] in ('PercusYevick', 'HyperNettedChain')


def sigma_ab(spec, a, b):
    return (spec['diameter'][a] + spec['diameter'][b]) / 2.0


def refgrid(spec):
    return RefGrid(spec['domain']['length'], domain_dr(spec['domain']))


# ----------------------------------------------------------------------------- builders
def make_domain(pp, dom):
    h = dom.get('history')
    if not h:
        return pp.Domain(length=dom['length'], **{dom['via']: dom['value']})
    st = h['start']
    d = pp.Domain(length=st['length'], **{st['via']: st['value']})
    for attr, val in h['steps']:
        setattr(d, attr, val)
    return d


def potential_sigma(spec, a, b):
    """length scale of the pair's potential: its own if the user gave one, else the contact distance"""
    p = spec['pairs'][pkey(a, b)]
    if p['potential'] is not None and p['potential']['kw'].get('sigma') is not None:
        return p['potential']['kw']['sigma']  # written into the potential's own constructor arguments (C16 records)
    if p.get('potential_sigma_abs') is not None:
        return p['potential_sigma_abs']      # given explicitly at construction and kept through later diameter edits
    f = p.get('potential_sigma_factor')
    return sigma_ab(spec, a, b) * f if f else sigma_ab(spec, a, b)


def freeze_explicit_sigmas(spec):
    """a potential constructed with an explicit sigma keeps it when the diameters are edited later"""
    for (a, b) in pairs(spec['types']):
        p = spec['pairs'][pkey(a, b)]
        if (p.get('explicit_sigma') or p.get('potential_sigma_factor')) and p.get('potential_sigma_abs') is None:
            p['potential_sigma_abs'] = potential_sigma(spec, a, b)


def core_radius(spec, a, b):
    """distance below which the pair has a hard core: the closure's contact distance when the closure carries the
    hard-core flag, else (hard potential closed with PY/HNC) the potential's own sigma"""
    p = spec['pairs'][pkey(a, b)]
    if p['closure']['hc']:
        return sigma_ab(spec, a, b)
    return potential_sigma(spec, a, b)


def make_potential(pp, spec, a, b):
    p = spec['pairs'][pkey(a, b)]
    kw = dict(p['potential']['kw'])
    if p.get('potential_sigma_factor') or p.get('potential_sigma_abs') is not None or p.get('explicit_sigma'):
        kw['sigma'] = potential_sigma(spec, a, b)
    return getattr(pp.potential, p['potential']['cls'])(**kw)


def make_closure(pp, cspec):
    name = ALIAS[cspec['cls']] if cspec.get('alias') else cspec['cls']
    flag = bool(cspec['hc'])
    # the flag is documented as a bool; a numpy bool (result of a comparison) or 0/1 are what scripts actually pass
    fk = cspec.get('flagkind', 'bool')
    if fk == 'np_bool':
        flag = np.bool_(flag)
    elif fk == 'int':
        flag = int(flag)
    return getattr(pp.closure, name)(apply_hard_core=flag)


def omega_values(ospec, k):
    """Values of a tabulated omega on the grid k (harness' own formulas; any values would do)."""
    kw = ospec['kw']
    x = k * kw['l']
    s = np.sin(x) / x
    if kw['form'] == 'debye':
        n = kw['n']
        # freely-jointed n-mer, exact pair sum
        tot = np.ones_like(k) * n
        for d in range(1, n):
            tot = tot + 2.0 * (n - d) * s ** d
        return tot / n
    return kw['amp'] * s


def make_omega(pp, ospec, k_for_tables):
    if ospec['cls'] == 'Literal':
        # tabulated values fixed in the record (C16: what was on the simulated disk when a handle was created)
        return pp.omega.FromArray(omega=np.array(ospec['kw']['values'], dtype=float))
    if ospec['cls'] == 'FromArray':
        if ospec['kw'].get('grid'):
            # the table was computed by the user for the grid that was current at that time
            k_for_tables = RefGrid(*ospec['kw']['grid']).k
        vals = omega_values(ospec, k_for_tables)
        if ospec['kw'].get('with_k'):
            return pp.omega.FromArray(omega=list(vals), k=np.copy(k_for_tables))
        return pp.omega.FromArray(omega=np.copy(vals))
    return getattr(pp.omega, ospec['cls'])(**ospec['kw'])


def build_system(pp, spec):
    """Freshly built System, canonical assignment order, public API only."""
    types = list(spec['types'])
    s = pp.System(types, kT=spec['kT'])
    s.domain = make_domain(pp, spec['domain'])
    g = refgrid(spec)
    # every key handed to a table is equal to, but not the same object as, the name the System was built with
    fk = _fresh_key
    for t in types:
        s.density[fk(t)] = spec['density'][t]
        s.diameter[fk(t)] = spec['diameter'][t]
    bulk = spec.get('bulk') or {}
    prs = pairs(types)
    a0, b0 = prs[0]
    p0 = spec['pairs'][pkey(a0, b0)]
    plain0 = not p0.get('explicit_sigma') and not p0.get('potential_sigma_factor') and p0.get('potential_sigma_abs') is None
    if bulk.get('potential') and plain0:
        s.potential[types, types] = make_potential(pp, spec, a0, b0)
    if bulk.get('closure'):
        s.closure[types, types] = make_closure(pp, p0['closure'])
    for (a, b) in prs:
        p = spec['pairs'][pkey(a, b)]
        plain = not p.get('explicit_sigma') and not p.get('potential_sigma_factor') and p.get('potential_sigma_abs') is None
        if not (bulk.get('potential') and plain0 and plain and p['potential'] == p0['potential']):
            s.potential[fk(a), fk(b)] = make_potential(pp, spec, a, b)
        if not (bulk.get('closure') and p['closure'] == p0['closure']):
            s.closure[fk(a), fk(b)] = make_closure(pp, p['closure'])
        s.omega[fk(a), fk(b)] = make_omega(pp, p['omega'], g.k)
    return s


def _fresh_key(k):
    if isinstance(k, list):
        return [_fresh_key(x) for x in k]
    if isinstance(k, str):
        return ''.join([c for c in k])
    return k


# ----------------------------------------------------------------------------- references
def ref_density_matrices(spec):
    types = spec['types']
    n = len(types)
    site = np.zeros((n, n))
    pair = np.zeros((n, n))
    for i, a in enumerate(types):
        for j, b in enumerate(types):
            ra, rb = spec['density'][a], spec['density'][b]
            pair[i, j] = ra * rb
            site[i, j] = ra if i == j else ra + rb
    return site, pair


def ref_omega(pp, spec, k):
    """rho_site o omega_spec(k) as an (N, n, n) array; omega classes are the repository's own
    (C11 is not claimed) but freshly constructed from the record and evaluated on the reference k."""
    types = spec['types']
    n = len(types)
    site, _ = ref_density_matrices(spec)
    out = np.zeros((len(k), n, n))
    for i, a in enumerate(types):
        for j, b in enumerate(types):
            if i <= j:
                o = make_omega(pp, spec['pairs'][pkey(a, b)]['omega'], k)
                v = np.asarray(o.calculate(np.copy(k)), dtype=float)
                out[:, i, j] = v * site[i, j]
                out[:, j, i] = out[:, i, j]
    return out


def ref_potential(pp, spec, a, b, r):
    """u(r)/kT for the pair from a fresh potential object with sigma = the user's own or (d_a+d_b)/2."""
    p = spec['pairs'][pkey(a, b)]
    kw = dict(p['potential']['kw'])
    kw['sigma'] = potential_sigma(spec, a, b)
    U = getattr(pp.potential, p['potential']['cls'])(**kw)
    return np.asarray(U.calculate(np.copy(r)), dtype=float) / spec['kT']


def ref_closure(pp, spec, a, b, r, u):
    p = spec['pairs'][pkey(a, b)]
    c = getattr(pp.closure, p['closure']['cls'])(apply_hard_core=bool(p['closure']['hc']))
    c.potential = u
    c.sigma = sigma_ab(spec, a, b)
    return c


def closure_slope_sup(cspec, g1, g2, u, core_mask):
    """Exact supremum of |dc/dgamma| over the segment [g1, g2] (closed forms, see DESIGN 3 C01)."""
    cls = cspec['cls']
    with np.errstate(all='ignore'):
        if cls == 'PercusYevick':
            S = np.abs(np.exp(-u) - 1.0)
        elif cls == 'MeanSphericalApproximation':
            S = np.zeros_like(u)
        elif cls == 'HyperNettedChain':
            S = np.maximum(np.abs(np.exp(g1 - u) - 1.0), np.abs(np.exp(g2 - u) - 1.0))
        elif cls == 'MartynovSarkisov':
            def d(g):
                s = np.sqrt(g - u + 0.5)
                return np.abs(np.exp(s - 1.0) / (2.0 * s) - 1.0)
            S = np.maximum(d(g1), d(g2))
            s1 = np.sqrt(np.minimum(g1, g2) - u + 0.5)
            s2 = np.sqrt(np.maximum(g1, g2) - u + 0.5)
            S = np.where((s1 <= 1.0) & (s2 >= 1.0), np.maximum(S, 0.5), S)
        else:
            raise ValueError(cls)
    if cspec['hc']:
        S = np.where(core_mask, 1.0, S)
    S = np.where(np.isfinite(S), S, np.inf)
    return S
