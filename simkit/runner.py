"""simkit.runner -- batch execution, violation handling, evidence.

Exit codes: 0 held (possibly with KNOWN-FINDING lines); 1 VIOLATION;
2 HARNESS-ERROR; 3 wall-clock kill.  Only 0 and 1 are verdicts.
"""
import concurrent.futures as cf
import faulthandler
import glob
import hashlib
import importlib
import json
import multiprocessing
import os
import signal
import subprocess
import sys
import time
import traceback

from . import core
from .core import Ctx, Violation, Skip, canon, jsonable

WORLDS = {
    'C01': 'simkit.worlds.c01',
    'C03': 'simkit.worlds.c03',
    'C06': 'simkit.worlds.c06',
    'C07': 'simkit.worlds.c07',
    'C12': 'simkit.worlds.c12',
    'C13': 'simkit.worlds.c13',
    'C14': 'simkit.worlds.c14',
    'C15': 'simkit.worlds.c15',
    'C16': 'simkit.worlds.c16',
}

_world_cache = {}


def load_world(pid):
    w = _world_cache.get(pid)
    if w is None:
        mod = importlib.import_module(WORLDS[pid])
        w = _world_cache[pid] = mod.World()
    return w


class RunTimeout(Exception):
    pass


def _alarm(signum, frame):
    raise RunTimeout()


def execute(world, case, keep_log=False, timeout=None):
    """Execute one case (pure function of case + code under test)."""
    ctx = Ctx(case['run_seed'])
    ctx.keep_log = keep_log
    res = {'status': 'ok', 'violation': None, 'error': None}
    old = None
    if timeout:
        old = signal.signal(signal.SIGALRM, _alarm)
        signal.setitimer(signal.ITIMER_REAL, timeout)
    try:
        try:
            world.run(case, ctx)
        finally:
            if timeout:
                signal.setitimer(signal.ITIMER_REAL, 0)
    except Violation as v:
        res['status'] = 'violation'
        res['violation'] = v.to_json()
        ctx.log(violation=v.kind, site=v.site)
    except Skip as s:
        res['status'] = 'skip'
        ctx.log(skip=str(s))
    except RunTimeout:
        res['status'] = 'timeout'
    except Exception:
        res['status'] = 'error'
        res['error'] = traceback.format_exc()
    finally:
        if old is not None:
            signal.signal(signal.SIGALRM, old)
    res.update(digest=ctx.digest(), steps=ctx.steps, events=ctx.events, probes=ctx.probes,
               faults=ctx.faults, abstract=sorted(ctx.abstract), nontrivial=bool(ctx.nontrivial),
               info=ctx.info)
    if keep_log:
        res['log'] = ctx.logrecs
    return res


def vclass(res):
    v = res.get('violation')
    if not v:
        return None
    return (v['kind'], v['site'])


def make_case(world, pid, master, index, tier):
    seed = core.run_seed(master, pid, index)
    case = world.gen(seed, tier)
    case['property'] = pid
    case['run_seed'] = seed
    case['run_index'] = index
    case['master_seed'] = master
    return case


def _quiet_worker():
    # keep stdout clean for the VIOLATION line; libraries print solver progress
    try:
        devnull = os.open(os.devnull, os.O_WRONLY)
        os.dup2(devnull, 1)
        if not os.environ.get('VERIF_DEBUG'):
            os.dup2(devnull, 2)
    except Exception:
        pass


_winit = {}


def _work(args):
    pid, tier, master, indices, run_timeout = args
    if not _winit.get('q'):
        _winit['q'] = True
        _quiet_worker()
    faulthandler.dump_traceback_later(max(120, run_timeout * len(indices) + 60), exit=True)
    world = load_world(pid)
    agg = {'probes': {}, 'faults': {}, 'abstract': set(), 'steps': 0, 'events': 0,
           'status': {}, 'runs': [], 'failures': [], 'samples': [], 'cpu': 0.0}
    t0 = time.process_time()
    for i in indices:
        case = make_case(world, pid, master, i, tier)
        res = execute(world, case, timeout=run_timeout)
        agg['status'][res['status']] = agg['status'].get(res['status'], 0) + 1
        for k, v in res['probes'].items():
            agg['probes'][k] = agg['probes'].get(k, 0) + v
        for k, v in res['faults'].items():
            agg['faults'][k] = agg['faults'].get(k, 0) + v
        agg['abstract'].update(res['abstract'])
        agg['steps'] += res['steps']
        agg['events'] += res['events']
        agg['runs'].append((i, res['digest'][:20], res['nontrivial'], res['status'], case.get('batch', 'fault_free')))
        if res['status'] in ('violation', 'error', 'timeout'):
            agg['failures'].append({'index': i, 'case': case, 'res': res})
        elif len(agg['samples']) < 1 and res['nontrivial']:
            agg['samples'].append({'run_index': i, 'run_seed': case['run_seed'], 'config': case.get('config'),
                                   'ops': case['ops'][:40], 'status': res['status']})
    agg['cpu'] = time.process_time() - t0
    agg['abstract'] = sorted(agg['abstract'])
    faulthandler.cancel_dump_traceback_later()
    return agg


def _work_isolated(args):
    """Run one chunk in a child forked from this (pristine, never-ran-a-case) pool worker.  Process-global state that
    code under test may keep (class-level caches, module globals) can then leak only between the runs of one chunk, and a
    chunk is a deterministic list of run indices: a violation that needs such a leak is reproducible by replaying the chunk
    prefix in a fresh interpreter (multi-run replay file), instead of depending on which chunks a worker happened to get."""
    import pickle
    if not _winit.get('q'):
        _winit['q'] = True
        _quiet_worker()
    r, w = os.pipe()
    pid = os.fork()
    if pid == 0:
        code = 0
        try:
            os.close(r)
            try:
                out = ('ok', _work(args))
            except BaseException:
                out = ('exc', traceback.format_exc())
            data = pickle.dumps(out, protocol=pickle.HIGHEST_PROTOCOL)
            with os.fdopen(w, 'wb') as f:
                f.write(data)
        except BaseException:
            code = 1
        finally:
            os._exit(code)
    os.close(w)
    chunks = []
    with os.fdopen(r, 'rb') as f:
        while True:
            b = f.read(1 << 20)
            if not b:
                break
            chunks.append(b)
    os.waitpid(pid, 0)
    data = b''.join(chunks)
    if not data:
        raise RuntimeError('chunk child %s died without a result (indices %s..%s)' % (pid, args[3][0], args[3][-1]))
    kind, val = pickle.loads(data)
    if kind == 'exc':
        raise RuntimeError('chunk child raised:\n' + val)
    return val


TIERS = {
    # property: (quick_runs, thorough_runs, chunk, per-run timeout s, quick wall cap s, thorough wall cap s)
    'C01': (4000, 48000, 20, 60, 110, 1200),
    'C03': (3200, 40000, 20, 60, 110, 1200),
    'C06': (3000, 40000, 10, 90, 110, 1200),
    'C07': (6000, 120000, 100, 30, 60, 600),
    'C12': (6000, 100000, 100, 30, 60, 600),
    'C13': (8000, 150000, 200, 30, 60, 600),
    'C14': (8000, 150000, 200, 30, 45, 400),
    'C15': (8000, 150000, 200, 30, 45, 400),
    'C16': (1600, 24000, 10, 120, 110, 1200),
}


def load_known():
    p = os.path.join(core.VERIF_DIR, 'known_findings.json')
    if not os.path.exists(p):
        return []
    with open(p) as f:
        return json.load(f).get('findings', [])


def known_match(world, pid, case, violation):
    sig = world.signature(case, violation)
    for e in load_known():
        if e.get('property') == pid and e.get('status') == 'open' and e.get('signature') == sig:
            return e
    return None


def write_replay(pid, case, res, tag='v'):
    d = os.path.join(core.VERIF_DIR, 'replays')
    os.makedirs(d, exist_ok=True)
    out = dict(case)
    out['violation'] = res['violation']
    out['digest'] = res['digest']
    p = os.path.join(d, '%s-%s-%s-%s.json' % (pid, case.get('master_seed'), case.get('run_index'), tag))
    with open(p, 'w') as f:
        json.dump(jsonable(out), f, indent=1, sort_keys=True)
    return p


def replay_fresh(pid, path):
    """Re-execute a replay file in a fresh interpreter; returns (rc, stdout)."""
    env = dict(os.environ)
    env['PYTHONHASHSEED'] = '0'
    pr = subprocess.run([os.path.join(core.VERIF_DIR, 'check'), pid, '--replay', path],
                        capture_output=True, text=True, env=env, timeout=600)
    return pr.returncode, pr.stdout + pr.stderr


def _multi_replay(world, pid, prefix, case, cls, res):
    """find a short list of preceding runs after which `case` fails with class cls in a FRESH interpreter; returns (path, res)"""
    def attempt(cases):
        out = {'property': pid, 'multi': [jsonable(c) for c in cases] + [jsonable(case)], 'violation': res['violation'], 'digest': None,
               'run_seed': case['run_seed'], 'run_index': case.get('run_index'), 'master_seed': case.get('master_seed')}
        d = os.path.join(core.VERIF_DIR, 'replays')
        os.makedirs(d, exist_ok=True)
        p = os.path.join(d, '%s-%s-%s-multi.json' % (pid, case.get('master_seed'), case.get('run_index')))
        with open(p, 'w') as f:
            json.dump(out, f, indent=1, sort_keys=True)
        rc, txt = replay_fresh(pid, p)
        return (rc == 1 and ('class=%s@%s same_class=True' % cls) in txt), p
    ok, p = attempt(prefix)
    if not ok:
        return None, None
    best = list(prefix)
    # shrink: keep only the preceding runs that matter (greedy, from the far end; bounded)
    tries = 0
    i = 0
    while i < len(best) and tries < 12:
        cand = best[:i] + best[i + 1:]
        tries += 1
        ok, _ = attempt(cand)
        if ok:
            best = cand
        else:
            i += 1
    ok, p = attempt(best)
    return (p, res) if ok else (None, None)


def cmd_replay(pid, path):
    world = load_world(pid)
    with open(path) as f:
        case = json.load(f)
    if 'multi' in case:
        # several runs executed one after the other in this interpreter: the violation needs state that an earlier run left behind
        for c in case['multi'][:-1]:
            execute(world, c)
        last = dict(case['multi'][-1])
        last['violation'] = case.get('violation')
        last['digest'] = case.get('digest')
        case = last
    res = execute(world, case, keep_log=bool(os.environ.get('VERIF_LOG')))
    if os.environ.get('VERIF_LOG'):
        for l in res.get('log', []):
            print('LOG', l)
    if res['status'] == 'violation':
        exp = case.get('violation')
        same = (exp is None) or (exp['kind'], exp['site']) == vclass(res)
        print('REPRODUCED class=%s@%s same_class=%s digest=%s expected_digest=%s' % (
            res['violation']['kind'], res['violation']['site'], same, res['digest'], case.get('digest')))
        print('DETAIL %s' % canon(res['violation']['detail']))
        print('VIOLATION property=%s replay=%s' % (pid, path))
        return 1
    if res['status'] == 'error':
        print('HARNESS-ERROR during replay:\n%s' % res['error'])
        return 2
    print('NOT-REPRODUCED status=%s digest=%s' % (res['status'], res['digest']))
    return 0


def run_check(pid, tier):
    from . import shrink
    t_start = time.time()
    master = int(os.environ.get('VERIF_SEED', core.DEFAULT_MASTER_SEED))
    tier = os.environ.get('VERIF_TIER', tier) if tier is None else tier
    qn, tn, chunk, run_to, qwall, twall = TIERS[pid]
    n_runs = int(os.environ.get('VERIF_RUNS', qn if tier == 'quick' else tn))
    wall = float(os.environ.get('VERIF_WALL', qwall if tier == 'quick' else twall))
    workers = int(os.environ.get('VERIF_WORKERS', min(16, os.cpu_count() or 1)))
    for k in ('OPENBLAS_NUM_THREADS', 'OMP_NUM_THREADS', 'MKL_NUM_THREADS'):
        os.environ[k] = '1'
    world = load_world(pid)   # imports pyPRISM from the current working tree (before fork)
    print('simkit check property=%s tier=%s master_seed=%d runs<=%d wall<=%.0fs workers=%d repo=%s' % (
        pid, tier, master, n_runs, wall, workers, core.repo_path()))
    sys.stdout.flush()

    violations = []      # (path, res)
    known_hit = {}
    harness_errors = []

    # 1. committed regressions first (cheap, deterministic)
    regs = sorted(glob.glob(os.path.join(core.VERIF_DIR, 'regressions', '%s-*.json' % pid)))
    reg_done = 0
    for rp in regs:
        with open(rp) as f:
            case = json.load(f)
        res = execute(world, case, timeout=run_to * 2)
        reg_done += 1
        if res['status'] == 'violation':
            e = known_match(world, pid, case, res['violation'])
            if e is not None:
                known_hit[e['signature']] = e
            else:
                violations.append((rp, res))
        elif res['status'] in ('error', 'timeout'):
            harness_errors.append('regression %s: %s %s' % (rp, res['status'], res['error']))

    # 2. seeded search
    agg = {'probes': {}, 'faults': {}, 'abstract': set(), 'steps': 0, 'events': 0, 'status': {},
           'runs': [], 'failures': [], 'samples': [], 'cpu': 0.0}
    chunks = [list(range(s, min(s + chunk, n_runs))) for s in range(0, n_runs, chunk)]
    ctxmp = multiprocessing.get_context('fork')
    timed_out = False
    stop_submitting = False
    with cf.ProcessPoolExecutor(max_workers=workers, mp_context=ctxmp) as ex:
        pending = {}
        it = iter(chunks)
        done_chunks = 0

        def submit_more():
            while len(pending) < workers * 2 and not stop_submitting:
                try:
                    c = next(it)
                except StopIteration:
                    return
                fut = ex.submit(_work_isolated, (pid, tier, master, c, run_to))
                pending[fut] = c
        submit_more()
        try:
            while pending:
                done, _ = cf.wait(list(pending), timeout=5, return_when=cf.FIRST_COMPLETED)
                for fut in done:
                    pending.pop(fut)
                    a = fut.result()
                    done_chunks += 1
                    for k in ('probes', 'faults', 'status'):
                        for kk, v in a[k].items():
                            agg[k][kk] = agg[k].get(kk, 0) + v
                    agg['abstract'].update(a['abstract'])
                    agg['steps'] += a['steps']
                    agg['events'] += a['events']
                    agg['cpu'] += a['cpu']
                    agg['runs'].extend(a['runs'])
                    agg['failures'].extend(a['failures'])
                    if len(agg['samples']) < 5:
                        agg['samples'].extend(a['samples'])
                if time.time() - t_start > wall:
                    stop_submitting = True
                    timed_out = True
                if len(agg['failures']) >= 24:
                    stop_submitting = True
                submit_more()
        except cf.process.BrokenProcessPool as e:
            harness_errors.append('worker died: %r' % (e,))
    agg['runs'].sort()
    agg['failures'].sort(key=lambda f: f['index'])
    search_wall = time.time() - t_start

    # 3. failures: classify, minimise, replay in a fresh interpreter, match known findings
    groups = {}
    for f in agg['failures']:
        st = f['res']['status']
        if st == 'error':
            harness_errors.append('run %d: %s' % (f['index'], f['res']['error']))
            continue
        if st == 'timeout':
            harness_errors.append('run %d: per-run timeout' % f['index'])
            continue
        groups.setdefault(vclass(f['res']), []).append(f)
    minim_info = []
    for cls, fs in sorted(groups.items()):
        for f in fs[:3]:
            case = f['case']
            mcase, mres, nexec = shrink.minimise(world, case, cls, timeout=run_to * 2)
            path = write_replay(pid, mcase, mres, tag='min')
            write_replay(pid, case, f['res'], tag='orig')
            rc, out = replay_fresh(pid, path)
            ok = (rc == 1 and ('class=%s@%s same_class=True' % cls) in out and mres['digest'] in out)
            minim_info.append({'class': list(cls), 'run_index': f['index'], 'ops_before': len(case['ops']),
                               'ops_after': len(mcase['ops']), 'executions': nexec, 'replayed': ok})
            if not ok:
                # not a function of this run alone: try the runs that preceded it in its chunk (state leaking between runs)
                start = (f['index'] // chunk) * chunk
                prefix = [make_case(world, pid, master, i, tier) for i in range(start, f['index'])]
                mpath, mres = _multi_replay(world, pid, prefix, case, cls, f['res'])
                if mpath is None:
                    harness_errors.append('violation %s@%s of run %d did not replay identically in a fresh interpreter (rc=%d), nor did its '
                                          'chunk prefix: %s' % (cls[0], cls[1], f['index'], rc, out[-600:]))
                    continue
                minim_info[-1].update(replayed=True, needs_preceding_runs=True)
                path, mcase, mres = mpath, case, mres
            e = known_match(world, pid, mcase, mres['violation'])
            if e is not None:
                known_hit[e['signature']] = e
            else:
                violations.append((path, mres))
                break

    # 4. evidence
    nt = set()
    allruns = set()
    batches = {}
    for (i, dg, ntv, st, batch) in agg['runs']:
        allruns.add(dg)
        if ntv and st in ('ok', 'violation'):
            nt.add(dg)
        b = batches.setdefault(batch, {'runs': 0, 'judged': 0})
        b['runs'] += 1
        if st in ('ok', 'violation'):
            b['judged'] += 1
    bh = hashlib.sha256()
    for r in agg['runs']:
        bh.update(('%d:%s;' % (r[0], r[1])).encode())
    evaluations = len(agg['runs'])
    wall_s = time.time() - t_start
    gaps = [p for p in world.expected_probes(tier) if agg['probes'].get(p, 0) == 0]
    ev = {
        'property_id': pid,
        'tier': tier,
        'seed': master,
        'level': 'exploration',
        'wall_s': round(wall_s, 2),
        'violations': len(violations),
        'coverage': {
            'evaluations': evaluations,
            'distinct_nontrivial': len(nt),
            'rule': world.rule(),
            'samples': agg['samples'][:5] if agg['samples'] else [],
            'distinct_run_digests': len(allruns),
            'abstract_states': len(agg['abstract']),
            'abstract_state_measure': world.abstract_measure(),
            'run_status': agg['status'],
            'batches': batches,
            'steps_total_logical_clock': agg['steps'],
            'events_logged': agg['events'],
            'simulated_time': 'n/a - nothing in the code under test reads a clock; logical time = steps_total (user ops + solver callbacks + file operations)',
            'runs_per_hour': int(evaluations / max(search_wall, 1e-9) * 3600),
            'seeds_per_hour': int(evaluations / max(search_wall, 1e-9) * 3600),
            'cpu_s_in_runs': round(agg['cpu'], 1),
            'workers': workers,
            'fault_fired': agg['faults'],
            'probes': agg['probes'],
            'coverage_gaps': gaps,
            'components': world.components(),
            'batch_digest': bh.hexdigest(),
            'budget_exhausted_before_all_runs': bool(timed_out and evaluations < n_runs),
            'regressions_replayed': reg_done,
            'known_findings_hit': sorted(known_hit),
            'minimisation': minim_info,
            'exhaustive': False,
        },
        'assumptions': world.assumptions(),
    }
    if not ev['coverage']['samples']:
        ev['coverage']['samples'] = [{'note': 'no non-trivial run completed'}]
    evdir = os.environ.get('VERIF_EVIDENCE_DIR') or os.path.join(core.VERIF_DIR, 'evidence')
    os.makedirs(evdir, exist_ok=True)
    evp = os.path.join(evdir, '%s.json' % pid)
    with open(evp, 'w') as f:
        json.dump(jsonable(ev), f, indent=1, sort_keys=True)
    try:
        import jsonschema
        with open('/root/.vp/EVIDENCE.schema.json') as f:
            schema = json.load(f)
        with open(evp) as f:
            jsonschema.validate(json.load(f), schema)
    except ImportError:
        pass
    except FileNotFoundError:
        pass
    except Exception as e:
        harness_errors.append('evidence does not validate: %s' % (str(e)[:300],))

    print('runs=%d judged=%s distinct_nontrivial=%d abstract_states=%d steps=%d wall=%.1fs runs/h=%d batch_digest=%s' % (
        evaluations, agg['status'], len(nt), len(agg['abstract']), agg['steps'], wall_s,
        ev['coverage']['runs_per_hour'], bh.hexdigest()[:16]))
    print('faults_fired=%s' % canon(agg['faults']))
    pr = canon(agg['probes'])
    print('probes=%s' % (pr if len(pr) < 1600 else pr[:1600] + '... (%d probes, full list in evidence)' % len(agg['probes'])))
    if gaps:
        print('coverage_gaps=%s' % canon(gaps))
    for sig, e in sorted(known_hit.items()):
        print('KNOWN-FINDING: property=%s %s' % (pid, e.get('what', sig)))
    for path, res in violations:
        print('violation class=%s@%s detail=%s' % (res['violation']['kind'], res['violation']['site'],
                                                  canon(res['violation']['detail'])[:600]))
        print('VIOLATION property=%s replay=%s' % (pid, path))
    if violations:
        return 1
    if harness_errors:
        for h in harness_errors[:5]:
            print('HARNESS-ERROR %s' % h)
        return 2
    if evaluations == 0:
        print('HARNESS-ERROR no run completed')
        return 2
    return 0
