"""simkit.physics -- the closures and pair potentials written from their documented definitions,
independently of pyPRISM's classes.  Used by the C01/C03 oracles so that "that pair's own closure
relation between c(r), h(r)-c(r) and u(r)/kT" is judged against the definition, not against the code
under test.  (C16 judges *wiring*, and there the repository's own classes, freshly built from the
parameter record, are the right reference.)

Conventions (as the statements of C03/C10 and the shipped code agree): the hard core is r <= sigma;
high_value = 1e6.
"""
import numpy as np

HIGH = 1.0e6


def potential(cls, kw, sigma, r):
    """u(r) (not divided by kT) for the shipped potentials."""
    r = np.asarray(r, dtype=float)
    with np.errstate(all='ignore'):
        if cls == 'HardSphere':
            return np.where(r > sigma, 0.0, HIGH)
        if cls in ('LennardJones', 'WeeksChandlerAndersen'):
            eps = kw['epsilon']

            def lj(x):
                return 4.0 * eps * ((sigma / x) ** 12.0 - (sigma / x) ** 6.0)
            if cls == 'WeeksChandlerAndersen':
                rcut, shift = sigma * 2.0 ** (1.0 / 6.0), True
            else:
                rcut, shift = kw.get('rcut'), bool(kw.get('shift'))
            u = lj(r)
            if rcut is not None:
                if shift:
                    u = u - lj(rcut)
                u = np.where(r > rcut, 0.0, u)
            return u
        if cls == 'HardCoreLennardJones':
            eps = kw['epsilon']
            u = eps * ((sigma / r) ** 12.0 - 2.0 * (sigma / r) ** 6.0)
            return np.where(r <= sigma, HIGH, u)
        if cls == 'Exponential':
            u = -kw['epsilon'] * np.exp(-(r - sigma) / kw['alpha'])
            return np.where(r > sigma, u, HIGH)
    raise ValueError(cls)


def closure(cls, hc, sigma, r, gamma, u):
    """c(r) from gamma(r) = h - c and u(r)/kT for the shipped atomic closures; with the hard-core flag
    c = -1 - gamma for r <= sigma."""
    r = np.asarray(r, dtype=float)
    g = np.asarray(gamma, dtype=float)
    with np.errstate(all='ignore'):
        if cls == 'PercusYevick':
            c = (np.exp(-u) - 1.0) * (1.0 + g)
        elif cls == 'HyperNettedChain':
            c = np.exp(g - u) - 1.0 - g
        elif cls == 'MeanSphericalApproximation':
            c = -u * np.ones_like(g)
        elif cls == 'MartynovSarkisov':
            c = np.exp(np.sqrt(g - u + 0.5) - 1.0) - 1.0 - g
        else:
            raise ValueError(cls)
        if hc:
            c = np.where(r <= sigma, -1.0 - g, c)
    return c
