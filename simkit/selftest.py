"""./check selftest determinism [props...] [--n N]   -- same seed => same execution, proven on a sample
   ./check selftest sensitivity [names...] [--tier quick]  -- every kept seeded change is caught

determinism: for each world, run indices 0..N-1 are executed
   (a) sequentially in a fresh interpreter under PYTHONHASHSEED=0,
   (b) in reverse order in another fresh interpreter under a different PYTHONHASHSEED (also exposes state
       leaking from one run into the next inside a process),
   (c) through the parallel runner with 1 worker and with 16 workers (batch digest must not depend on the worker count);
   all run digests (sha256 over the canonical event log + raw bytes of numerical results) must agree.
"""
import argparse
import json
import os
import subprocess
import sys

from . import core

CLAIMED = ['C01', 'C03', 'C06', 'C07', 'C12', 'C13', 'C14', 'C15', 'C16']
DEFAULT_N = {'C01': 120, 'C03': 120, 'C06': 80, 'C07': 400, 'C12': 400, 'C13': 400, 'C14': 400, 'C15': 400, 'C16': 60}


def digests(pid, n, order):
    from . import runner
    world = runner.load_world(pid)
    master = int(os.environ.get('VERIF_SEED', core.DEFAULT_MASTER_SEED))
    idx = list(range(n))
    if order == 'rev':
        idx.reverse()
    out = {}
    runner._quiet_worker()
    for i in idx:
        case = runner.make_case(world, pid, master, i, 'quick')
        res = runner.execute(world, case, timeout=180)
        out[i] = '%s:%s' % (res['status'], res['digest'])
    return out


def sub(args, env_extra):
    env = dict(os.environ)
    env.update(env_extra)
    p = subprocess.run([sys.executable, '-m', 'simkit.selftest'] + args, cwd=core.VERIF_DIR, env=env, capture_output=True, text=True, timeout=3600)
    return p


def determinism(props, n_override):
    bad = 0
    for pid in props:
        n = n_override or DEFAULT_N[pid]
        outf = os.path.join('/tmp', 'simkit_selftest_%d_%s' % (os.getpid(), pid))
        res = []
        for order, hs in (('fwd', '0'), ('rev', '98765')):
            p = sub(['_digests', pid, str(n), order, outf + order], {'PYTHONHASHSEED': hs})
            if p.returncode != 0:
                print('HARNESS-ERROR selftest subprocess failed for %s: %s' % (pid, (p.stdout + p.stderr)[-400:]))
                return 2
            with open(outf + order) as f:
                res.append(json.load(f))
            os.unlink(outf + order)
        diff = [i for i in res[0] if res[0][i] != res[1].get(i)]
        # parallel runner: 1 vs 16 workers
        bd = []
        for w in ('1', '16'):
            env = {'VERIF_WORKERS': w, 'VERIF_RUNS': str(min(n, 200)), 'VERIF_EVIDENCE_DIR': '/tmp/simkit_selftest_ev_%d' % os.getpid(),
                   'PYTHONHASHSEED': '0' if w == '1' else '4242'}
            e = dict(os.environ)
            e.update(env)
            p = subprocess.run([os.path.join(core.VERIF_DIR, 'check'), pid, '--tier', 'quick'], cwd=core.VERIF_DIR, env=e, capture_output=True, text=True, timeout=3600)
            line = [l for l in p.stdout.splitlines() if 'batch_digest=' in l]
            bd.append(line[0].split('batch_digest=')[1].strip() if line else 'none rc=%d' % p.returncode)
        ok = not diff and bd[0] == bd[1] and not bd[0].startswith('none')
        print('determinism %s: %d runs x2 (fresh interpreters, PYTHONHASHSEED 0 / 98765, forward / reverse order): %d differ; '
              'batch digest 1 worker %s, 16 workers %s -> %s' % (pid, n, len(diff), bd[0], bd[1], 'OK' if ok else 'FAIL'))
        if diff:
            print('   differing run indices: %s' % diff[:20])
        if not ok:
            bad += 1
    return 1 if bad else 0


def sensitivity(names, tier):
    sd = os.path.join(core.VERIF_DIR, 'seeded')
    names = names or sorted(d for d in os.listdir(sd) if os.path.isdir(os.path.join(sd, d)) and not d.startswith('_'))
    bad = 0
    for nm in names:
        p = subprocess.run([os.path.join(core.VERIF_DIR, 'tools', 'try_seeded.py'), os.path.join(sd, nm), '--tier', tier, '--skip-tests'],
                           capture_output=True, text=True, timeout=7200)
        try:
            o = json.loads(p.stdout)
        except Exception:
            print('sensitivity %s: HARNESS-ERROR %s' % (nm, (p.stdout + p.stderr)[-300:]))
            bad += 1
            continue
        c = o.get('checks', {})
        caught = any(v['caught'] for v in c.values())
        print('sensitivity %s: %s %s' % (nm, 'CAUGHT' if caught else 'MISSED', {k: (v['rc'], v['seconds']) for k, v in c.items()}))
        if not caught:
            bad += 1
    return 1 if bad else 0


def main(argv):
    if argv and argv[0] == '_digests':
        pid, n, order, outp = argv[1], int(argv[2]), argv[3], argv[4]
        d = digests(pid, n, order)
        with open(outp, 'w') as f:
            json.dump({str(k): v for k, v in d.items()}, f)
        return 0
    ap = argparse.ArgumentParser()
    ap.add_argument('what', choices=['determinism', 'sensitivity'])
    ap.add_argument('names', nargs='*')
    ap.add_argument('--n', type=int, default=None)
    ap.add_argument('--tier', default='quick')
    a = ap.parse_args(argv)
    if a.what == 'determinism':
        return determinism(a.names or CLAIMED, a.n)
    return sensitivity(a.names, a.tier)


if __name__ == '__main__':
    sys.exit(main(sys.argv[1:]))
