"""simkit.simroot -- the solver seam.

`pyPRISM.core.PRISM.root` is a module global looked up at call time; the simulator replaces it
per run with a SimRoot instance (shipped code unchanged, no hook).  Modes:

  real      delegate to scipy.optimize.root; only a counting wrapper around fun
  buggify   as real, plus cooperative fault points modelled on behaviour measured in real scipy:
              extra_eval_after_root  (wolfe line search / MINPACK trust-region rejection / FD Jacobians)
              buffer_reuse           (MINPACK wrappers hand fun one work array, overwritten in place)
              return_work_buffer     (with buffer_reuse: the returned x *is* that work array, holding the solution)
              early_stop             (stop after k evaluations, success=False)
  scripted  a pure-python damped Picard iteration whose step, acceptance and *which visited point
            is returned* (best-so-far, not necessarily the last) come from the plan

Every fault decision of a solve is a function of (plan, solve_index) only, so the k-th solve of an
object, of its shadow and of a freshly built reference see exactly the same solver behaviour.
"""
import sys

import numpy as np
import scipy.optimize

from .core import h64

REAL_ROOT = scipy.optimize.root


class BudgetExceeded(Exception):
    pass


class EarlyStop(Exception):
    pass


class SolveAborted(Exception):
    """the simulated user interrupts the solve at an arbitrary callback (Ctrl-C in a notebook, a wall-clock limit in a
    batch script): the exception propagates out of scipy and PRISM.solve, leaving the object mid-iteration"""


class SolveRecord(object):
    def __init__(self, index):
        self.index = index
        self.ncalls = 0
        self.last_x = None
        self.root_x = None
        self.last_eval_is_root = None
        self.success = None
        self.maxF = None
        self.faults = []
        self.exception = None


class SimRoot(object):
    def __init__(self, plan, ctx=None, on_eval=None, stream_key=0):
        self.plan = plan or {'mode': 'real'}
        self.ctx = ctx
        self.on_eval = on_eval       # callable(x, y, record) -- monitors (C03)
        self.records = []
        self.stream_key = stream_key
        self.calls = 0               # number of times root() was invoked (C16: never on a partial system)
        self.force_index = None      # C16: the reference solve of step k uses the fault stream of the swept solve it mirrors
        self.abort_next = None       # one-shot: abort the next solve after this many callbacks (SolveAborted propagates)

    # scipy signature
    def __call__(self, fun, x0, args=(), method='hybr', jac=None, tol=None, callback=None, options=None):
        self.calls += 1
        idx = len(self.records) if self.force_index is None else int(self.force_index)
        rec = SolveRecord(idx)
        self.records.append(rec)
        plan = self.plan
        mode = plan.get('mode', 'real')
        faults = plan.get('faults', {}) if mode == 'buggify' else {}
        budget = int(plan.get('budget', 1500))
        ctx = self.ctx
        buf = [None]
        use_buf = bool(faults.get('buffer_reuse'))
        early = faults.get('early_stop')
        on_eval = self.on_eval
        abort_at, self.abort_next = self.abort_next, None

        def wrapped(x):
            rec.ncalls += 1
            if ctx is not None:
                ctx.tick()
            if abort_at is not None and rec.ncalls > abort_at:
                rec.faults.append('solve_aborted')
                if ctx is not None:
                    ctx.fault('solve_aborted')
                raise SolveAborted('aborted after %d callbacks' % abort_at)
            if rec.ncalls > budget:
                raise BudgetExceeded()
            if early is not None and rec.ncalls > early:
                raise EarlyStop()
            if use_buf:
                if buf[0] is None:
                    buf[0] = np.empty_like(np.asarray(x, dtype=float))
                buf[0][...] = x
                xp = buf[0]
            else:
                xp = x
            y = fun(xp)
            rec.last_x = np.array(xp, dtype=float, copy=True)
            if on_eval is not None:
                on_eval(rec.last_x, y, rec)
            return np.array(y, dtype=float, copy=True) if use_buf else y

        try:
            if mode == 'scripted':
                res = self._scripted(wrapped, x0, plan, rec)
            else:
                res = REAL_ROOT(wrapped, x0, method=method, options=options)
        except BudgetExceeded:
            rec.faults.append('eval_budget')
            res = scipy.optimize.OptimizeResult(x=np.copy(rec.last_x if rec.last_x is not None else x0), success=False,
                                                fun=None, message='simulator evaluation budget exceeded')
        except EarlyStop:
            rec.faults.append('early_stop')
            if ctx is not None:
                ctx.fault('early_stop')
            res = scipy.optimize.OptimizeResult(x=np.copy(rec.last_x if rec.last_x is not None else x0), success=False,
                                                fun=None, message='simulated early stop')
        ok = bool(getattr(res, 'success', False))
        if ok and faults.get('extra_eval_after_root'):
            rs = np.random.RandomState(h64(self.stream_key, 'extra', idx) % (2 ** 32))
            for scale in faults['extra_eval_after_root']:
                delta = scale * rs.standard_normal(np.shape(res.x))
                try:
                    wrapped(np.asarray(res.x, dtype=float) + delta)
                except SolveAborted:
                    raise
                except (BudgetExceeded, EarlyStop):
                    break
                except Exception:
                    break      # a line search that probes a bad point simply discards it
                rec.faults.append('extra_eval_after_root')
                if ctx is not None:
                    ctx.fault('extra_eval_after_root')
        if use_buf and buf[0] is not None:
            if ok and faults.get('return_work_buffer'):
                # what MINPACK-style code does: the solution is left in the very work array that was handed to fun (after
                # in-place probes elsewhere) and that array is what is returned as x
                buf[0][...] = np.asarray(res.x, dtype=float).reshape(buf[0].shape)
                res.x = buf[0]
                rec.faults.append('return_work_buffer')
                if ctx is not None:
                    ctx.fault('return_work_buffer')
            else:
                buf[0][...] = np.nan
            rec.faults.append('buffer_reuse')
            if ctx is not None:
                ctx.fault('buffer_reuse')
        rec.success = ok
        rec.root_x = np.array(res.x, dtype=float, copy=True)
        rec.last_eval_is_root = (rec.last_x is not None and rec.last_x.shape == rec.root_x.shape and
                                 np.array_equal(rec.last_x, rec.root_x))
        f = getattr(res, 'fun', None)
        rec.maxF = float(np.max(np.abs(f))) if f is not None and np.size(f) and np.all(np.isfinite(f)) else None
        if ctx is not None:
            ctx.log(solve=idx, calls=rec.ncalls, success=ok, last_eval_is_root=rec.last_eval_is_root, faults=rec.faults)
            if ok and not rec.last_eval_is_root:
                ctx.probe('last_eval_differs_from_root')
        return res

    def _scripted(self, fun, x0, plan, rec):
        sc = plan.get('scripted', {})
        alpha = float(sc.get('alpha', 0.3))
        maxit = int(sc.get('maxit', 400))
        ftol = float(sc.get('ftol', 1e-8))
        probe_every = int(sc.get('probe_every', 0))      # every n-th iteration evaluate a discarded trial point
        ret = sc.get('return', 'best')                   # 'best' | 'last'
        extra_after = int(sc.get('extra_after', 0))      # evaluations after convergence, away from the root
        rs = np.random.RandomState(h64(self.stream_key, 'scripted', rec.index) % (2 ** 32))
        x = np.array(x0, dtype=float, copy=True)
        best = (np.inf, None, None)
        m = int(sc.get('anderson_m', 0))
        hist = []
        for it in range(maxit):
            y = np.asarray(fun(np.copy(x)), dtype=float)
            if not np.all(np.isfinite(y)):
                break
            nrm = float(np.max(np.abs(y)))
            if nrm < best[0]:
                best = (nrm, np.copy(x), np.copy(y))
            if nrm < ftol:
                break
            if probe_every and it % probe_every == probe_every - 1:
                try:
                    fun(x + alpha * 3.0 * y + 1e-3 * rs.standard_normal(x.shape))   # trial step, rejected
                except (BudgetExceeded, EarlyStop, SolveAborted):
                    raise
                except Exception:
                    pass
            if m > 0:
                hist.append((np.copy(x), np.copy(y)))
                hist = hist[-(m + 1):]
                if len(hist) > 1:
                    dF = np.array([hist[i + 1][1] - hist[i][1] for i in range(len(hist) - 1)]).T
                    dX = np.array([hist[i + 1][0] - hist[i][0] for i in range(len(hist) - 1)]).T
                    try:
                        g, *_ = np.linalg.lstsq(dF, y, rcond=None)
                        x = x + alpha * y - (dX + alpha * dF).dot(g)
                        continue
                    except Exception:
                        pass
            x = x + alpha * y
        if best[1] is None:
            return scipy.optimize.OptimizeResult(x=np.copy(x), success=False, fun=None, message='scripted: no finite evaluation')
        for _ in range(extra_after):
            try:
                fun(best[1] + 1e-2 * rs.standard_normal(x.shape))
            except (BudgetExceeded, EarlyStop, SolveAborted):
                raise
            except Exception:
                pass
        if ret == 'last' and np.all(np.isfinite(y)):
            return scipy.optimize.OptimizeResult(x=np.copy(x), fun=np.copy(y), success=bool(np.max(np.abs(y)) < ftol),
                                                 message='scripted: last iterate', nit=it)
        return scipy.optimize.OptimizeResult(x=best[1], fun=best[2], success=bool(best[0] < ftol), message='scripted: best iterate', nit=it)


class installed(object):
    """Context manager: pyPRISM.core.PRISM.root := simroot (restored afterwards)."""

    def __init__(self, simroot):
        self.simroot = simroot

    def __enter__(self):
        self.mod = sys.modules['pyPRISM.core.PRISM']
        self.old = self.mod.root
        self.mod.root = self.simroot
        return self.simroot

    def __exit__(self, *a):
        self.mod.root = self.old
        return False


def gen_plan(rng, n_unknowns=None, allow_scripted=True):
    """Swarm-style solver plan for one run."""
    r = rng.random()
    if r < 0.4:
        return {'mode': 'real', 'budget': 1500}
    if r < 0.8 or not allow_scripted:
        f = {}
        if rng.random() < 0.7:
            f['extra_eval_after_root'] = [rng.choice([1e-8, 1e-3, 1e-3, 1.0]) for _ in range(rng.randrange(1, 4))]
        if rng.random() < 0.35:
            f['buffer_reuse'] = True
            if rng.random() < 0.4:
                f['return_work_buffer'] = True
        if rng.random() < 0.1:
            f['early_stop'] = rng.randrange(1, 30)
        if not f:
            f['extra_eval_after_root'] = [1e-3]
        return {'mode': 'buggify', 'faults': f, 'budget': 1500}
    return {'mode': 'scripted', 'budget': 1500,
            'scripted': {'alpha': rng.choice([0.1, 0.2, 0.3, 0.5]), 'maxit': 600, 'ftol': rng.choice([1e-10, 1e-8, 1e-6, 1e-4]),
                         'probe_every': rng.choice([0, 0, 3, 7]), 'return': rng.choice(['best', 'best', 'last']),
                         'extra_after': rng.choice([0, 1, 2]), 'anderson_m': rng.choice([0, 3, 5])}}


def gen_user_solver(rng, n_unknowns):
    """What the simulated user passes to solve(): method + options (always explicit: the library
    default {'disp': True} prints to stdout)."""
    methods = ['krylov', 'krylov', 'krylov', 'broyden1', 'broyden2', 'anderson', 'df-sane', 'linearmixing', 'diagbroyden']
    if n_unknowns <= 256:
        methods += ['hybr', 'lm', 'hybr', 'lm']
    m = rng.choice(methods)
    if m in ('hybr',):
        o = {'xtol': rng.choice([1.49012e-08, 1e-6, 1e-3]), 'maxfev': 400}
    elif m == 'lm':
        o = {'xtol': rng.choice([1.49012e-08, 1e-6]), 'maxiter': 400}
    elif m == 'df-sane':
        o = {'maxfev': 600, 'disp': False}
        if rng.random() < 0.5:
            o['fatol'] = rng.choice([1e-8, 1e-6])
    else:
        o = {'disp': False, 'maxiter': rng.choice([100, 200, 400])}
        ls = rng.choice(['armijo', 'armijo', 'wolfe', None])
        if m == 'krylov' or rng.random() < 0.5:
            o['line_search'] = ls
        if rng.random() < 0.3:
            o['fatol'] = rng.choice([1e-10, 1e-8, 1e-6])
    return {'method': m, 'options': o}
