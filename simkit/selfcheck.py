"""setup_cmd: verify that everything the checks need is present (installs nothing)."""
import json
import os
import sys


def main():
    ok = True
    from . import core
    try:
        import numpy, scipy  # noqa
        print('numpy', numpy.__version__, 'scipy', scipy.__version__)
    except Exception as e:
        print('MISSING numpy/scipy', e)
        ok = False
    try:
        core.import_pyprism()
        print('pyPRISM importable from', core.repo_path())
    except Exception as e:
        print('cannot import pyPRISM from', core.repo_path(), e)
        ok = False
    try:
        import numpy.lib._datasource as ds
        print('file seam numpy.lib._datasource.open:', hasattr(ds, 'open'))
    except Exception as e:
        print('file seam absent (EIO fault kind will be reported as not injected):', e)
    try:
        m = sys.modules.get('pyPRISM.core.PRISM')
        print('solver seam pyPRISM.core.PRISM.root:', hasattr(m, 'root'))
        if not hasattr(m, 'root'):
            ok = False
    except Exception as e:
        print(e)
        ok = False
    for f in ('MANIFEST.json', 'known_findings.json', 'properties.jsonl'):
        p = os.path.join(core.VERIF_DIR, f)
        print(f, 'present' if os.path.exists(p) else 'MISSING')
        ok = ok and os.path.exists(p)
    return 0 if ok else 1


if __name__ == '__main__':
    sys.exit(main())
