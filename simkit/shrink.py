"""simkit.shrink -- ddmin over the recorded op/fault list + world-specific simplification,
keeping only candidates that fail with the same violation class (kind, site)."""
import copy

from .runner import execute, vclass


def minimise(world, case, cls, timeout=None, budget=300):
    nexec = [0]
    best = {'case': copy.deepcopy(case), 'res': None}

    def test(c):
        if nexec[0] >= budget:
            return None
        nexec[0] += 1
        r = execute(world, c, timeout=timeout)
        if r['status'] == 'violation' and vclass(r) == cls:
            return r
        return None

    r0 = test(best['case'])
    if r0 is None:
        # not deterministic?  report as is; caller's fresh replay will flag it
        return best['case'], execute(world, best['case'], timeout=timeout), nexec[0]
    best['res'] = r0

    def try_ops(ops):
        c = dict(best['case'])
        c['ops'] = ops
        r = test(c)
        if r is not None:
            best['case'] = c
            best['res'] = r
            return True
        return False

    # 0. truncate after the failing step when known
    # 1. ddmin
    n = 2
    while len(best['case']['ops']) >= 2 and nexec[0] < budget:
        ops = best['case']['ops']
        size = max(1, len(ops) // n)
        reduced = False
        for s in range(0, len(ops), size):
            cand = ops[:s] + ops[s + size:]
            if cand and try_ops(cand):
                n = max(n - 1, 2)
                reduced = True
                break
        if not reduced:
            if size == 1:
                break
            n = min(n * 2, len(ops))
    # 2. world-specific simplifications to fixpoint
    progress = True
    while progress and nexec[0] < budget:
        progress = False
        for cand in world.simplify(best['case']):
            r = test(cand)
            if r is not None:
                best['case'] = cand
                best['res'] = r
                progress = True
                break
    best['case']['original_ops_len'] = len(case['ops'])
    return best['case'], best['res'], nexec[0]
